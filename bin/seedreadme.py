#!/usr/bin/env python3
"""Regenerates the table at the end of seeded/README.md from the meta.json files (the prose above it is kept)."""
import json, os, glob
V = os.path.dirname(os.path.dirname(os.path.abspath(__file__)))
p = V + '/seeded/README.md'
s = open(p).read()
head = s.split('| change | property |')[0]
rows = []
for m in sorted(glob.glob(V + '/seeded/*/meta.json')):
    d = json.load(open(m))
    needs = ' '.join(x.strip() for x in d.get('needs_to_manifest', []) if x.strip())[:200].replace('|', '/')
    rows.append('| %s | %s | %s | %s |' % (d['name'], d['property'], ','.join(d['caught_by']) or '**missed**', needs))
open(p, 'w').write(head + '| change | property | caught by | needs (from the author\'s notes) |\n|---|---|---|---|\n' + '\n'.join(rows) + '\n')
print(len(rows), 'changes;', sum(1 for r in rows if '**missed**' in r), 'missed')
