#!/bin/bash
# sweep.sh <tier> <seed-list> [props...] — runs the registered checks of one tier under several VERIF_SEED values
# (background use: vp run --with-repo -- bin/sweep.sh quick "21 22 23"). Prints one line per (seed, property).
TIER=$1; SEEDS=$2; shift 2
PROPS=${@:-C01 C02 C03 C04 C05 C07 C08 C09 C10 C11 C12 C13 C14 C15 C16 C17 C18 C19 C20}
V=$(dirname $(dirname $(readlink -f $0)))
[ -n "${VP_RUN_REPO:-}" ] && export VF_REPO=$VP_RUN_REPO
$V/bin/build.sh || exit 2
VF_RACE=1 $V/bin/build.sh $V/build/sftp.verif.race.test || echo "race build failed"
for s in $SEEDS; do for p in $PROPS; do
  t0=$(date +%s)
  out=$(VERIF_SEED=$s $V/bin/vfcheck run $p $TIER 2>&1); rc=$?
  echo "seed=$s $p rc=$rc wall=$(( $(date +%s) - t0 ))s $(echo "$out" | grep -m3 'VIOLATION\|KNOWN-FINDING\|VF-ERROR\|REPLAY-DIVERGED' | tr '\n' ' ')"
  [ $rc -ne 0 ] && echo "$out" | tail -15
done; done
exit 0
