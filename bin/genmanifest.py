#!/usr/bin/env python3
"""Regenerates /verif/MANIFEST.json from props_meta.json (single source for per-property metadata)."""
import json, subprocess
V = '/verif'
meta = json.load(open(V + '/props_meta.json'))
na = json.load(open(V + '/not_applicable.json'))
hooks = subprocess.run(['git', '-C', '/repo', 'log', '--format=%H %s'], capture_output=True, text=True).stdout.splitlines()
hook_commits = [l.split()[0] for l in hooks if l.split(' ', 1)[1].startswith('verif hooks')]
checks = []
for pid in sorted(meta):
    m = meta[pid]
    checks.append({
        'property_id': pid,
        'quick_cmd': f'/verif/bin/vfcheck run {pid} quick',
        'thorough_cmd': f'/verif/bin/vfcheck run {pid} thorough',
        'evidence_file': f'/verif/evidence/{pid}.json',
        'replay_cmd_template': '/verif/bin/vfcheck replay {path}',
        'engine': 'vfsim',
        'level_claimed': {'category': m['level'], 'text': m['level_text'], 'design_ref': m.get('design_ref', 'DESIGN.md §3 ' + pid)},
        'level_note': m['level_note'],
        'technique': m.get('technique', 'deterministic simulation with fault injection (seeded schedules and faults, reference-model oracle, replay + minimisation)'),
    })
man = {
    'version': 1,
    'setup_cmd': '/verif/bin/setup.sh',
    'hooks': {
        'guard': 'verif',
        'enable': 'go test -tags verif (simYield/simLock call sites; inert unless the harness installs simHook/simLockHook); harness files are overlaid into the package with -overlay, nothing is written to /repo',
        'baseline_off_cmd': "cd /repo && GOFLAGS=-mod=mod GOPROXY=off go test -json -vet=off -count=1 -timeout 25m ./...",
        'source_commits': hook_commits,
        'add_only': True,
    },
    'engines': [{'name': 'vfsim', 'path': '/verif/harness', 'serves_properties': sorted(meta), 'kind_free_text': 'in-package deterministic simulator: testing/synctest bubble per run, seeded tape deciding every scheduling/fault choice, simulated transport, simulated request-server backend, scripted peers with an independent codec, reference models, replay and minimisation; runner /verif/bin/vfcheck'}],
    'checks': checks,
    'not_applicable': na,
    'notes': 'See DESIGN.md. Known findings: /verif/known_findings.json. Replays: /verif/replays (violations), /verif/findings (replay files of defects that were repaired by fix: commits).',
}
json.dump(man, open(V + '/MANIFEST.json', 'w'), indent=1)
print('MANIFEST.json written:', len(checks), 'checks,', len(na), 'not applicable')
