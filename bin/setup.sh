#!/bin/bash
# Run once after a fresh restore (offline): builds the simulation binary from /repo + /verif/harness
# and checks that the repository's own tests still pass with the hook tag on (hooks are inert without a simulator).
set -u
cd /verif
chmod +x bin/*.sh bin/vfcheck 2>/dev/null
mkdir -p build evidence replays
bin/build.sh || exit 2
# the race-enabled binary of the race-detector phase (first build compiles an instrumented standard library)
VF_RACE=1 bin/build.sh build/sftp.verif.race.test || echo "note: race-enabled build failed; the race-detector phase will be skipped"
export GOFLAGS=-mod=mod GOPROXY=off GOSUMDB=off GOTOOLCHAIN=local
(cd /repo && go1.26.8 test -tags verif -vet=off -count=1 . > /verif/build/tagged-suite.log 2>&1) || { echo "repository tests fail with -tags verif"; tail -20 /verif/build/tagged-suite.log; exit 2; }
echo "setup ok"
