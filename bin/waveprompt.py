#!/usr/bin/env python3
"""waveprompt.py <PROP> <wave> [hint-file] — prints the brief handed to a sub-agent that writes independent breakages.
The brief contains the property's text (from properties.jsonl) and the location of a scratch worktree; nothing
else from /verif. The worktree /tmp/wt-w<wave>-<PROP> must exist (git -C /repo worktree add --detach ...)."""
import json, sys
prop, wave = sys.argv[1], sys.argv[2]
hint = open(sys.argv[3]).read().strip() if len(sys.argv) > 3 else ''
rec = None
for l in open('/verif/properties.jsonl'):
    d = json.loads(l)
    if d['id'] == prop:
        rec = d
wt = f'/tmp/wt-w{wave}-{prop}'
out = f'/tmp/w{wave}/{prop}'
anch = rec['anchors']
print(f"""You are helping to evaluate a verification effort for the Go package github.com/pkg/sftp. Your job is to play the
part of a plausible future code change that silently breaks one stated property of the package.

A scratch git worktree of the package is at {wt} (your own; work only there; never touch /repo or /verif, and do
not read anything under /verif). Go environment for every command: `export GOFLAGS=-mod=mod GOPROXY=off` (the
sandbox is offline; the default `go` works; do not set GOSUMDB). The existing suite is run with
`cd {wt} && go test -vet=off -count=1 . ./internal/...` (about 15-40 s).

The property (id {prop}): "{rec['title']}"

Statement: {rec['statement']}

It is quantified over {', '.join(rec['quantifier']['over'])}: {rec['quantifier']['text']}

Code it is anchored in: files {', '.join(anch.get('files', []))}; mechanisms: {'; '.join(m['name'] + ' (' + m['where'] + ')' for m in anch.get('mechanism', []))}.

Produce TWO different changes (variant a and variant b) to the package's non-test source, each of which
  1. compiles, and the existing test suite (unedited) still passes with it;
  2. breaks the property above (a real behavioural violation of the statement, not a style issue);
  3. needs something SPECIFIC to manifest: a particular interleaving of goroutines, a fault/EOF/error at a particular
     point, a multi-step sequence of operations, an unusual input or option combination, or two cooperating sites that
     each look fine alone. It must NOT be something ordinary use would expose at once (no "every read returns garbage").
  4. looks like something a maintainer could plausibly write (a refactor, an optimisation, a "simplification", a
     well-meant fix) — not sabotage with magic constants.
The two variants must differ in kind (different file/mechanism/clause of the property), and should be unlike the
obvious off-by-one. {hint}

For each variant write, under {out}/a/ and {out}/b/ :
  * patch.diff — `git diff` of the change against the worktree's HEAD (only non-test source files of the package; it must
    apply with `git apply` to a clean checkout);
  * demo_test.go — a Go test file in package sftp (in-package, so it may use unexported identifiers) whose test
    function names start with `TestSeededDemo`. It must FAIL with the change applied and PASS without it, reliably
    (run it 5 times each way: `go test -vet=off -count=1 -run TestSeededDemo .`), finish within 60 s, need no
    network, no root-only features, and no files outside t.TempDir(). It is copied into the package directory as
    zz_demo_test.go when it is run, so it must not redeclare identifiers of the existing test files (prefix your
    helpers with `seeded`). If the violation depends on a goroutine schedule, make the demo force that schedule
    deterministically (e.g. with a fake transport / handler you control, channels, or by retrying until it shows).
  * notes.md — first line a one-sentence title; then: what was changed, which clause of the property it breaks, and
    exactly what is needed for it to manifest (interleaving, fault point, sequence, input, options).
When done leave the worktree clean (`git checkout -- . && git clean -fd`), and reply with a 5-line summary per
variant. Verify claims 1, 2 (via the demo, both directions) yourself before finishing; if a variant fails any of
them, fix or replace it.""")
