#!/bin/bash
# seedlane.sh <lane> <item>... — like seedeval.sh, but several lanes can run side by side: each lane has its own scratch
# worktree of /repo (/tmp/wt-lane-N, used both to confirm the change and as VF_REPO for the checks) and its own copy of
# /verif (/tmp/vf-lane-N; build output and evidence stay there, /verif/evidence is not touched). /repo itself is never modified.
# item = PROP:SRCDIR:NAME[:CHECK,CHECK...]   Run counts are those of the quick tier (budgets stretched because a lane has 5 workers).
LANE=$1; shift
V=/tmp/vf-lane-$LANE; R=/tmp/wt-lane-$LANE
export GOFLAGS=-mod=mod GOPROXY=off
rsync -a --delete --exclude .git --exclude build --exclude replays --exclude seeded --exclude evidence --exclude findings /verif/ $V/
mkdir -p $V/build $V/evidence $V/replays
[ -d $R ] || git -C /repo worktree add -q --detach $R HEAD
cd $R && git checkout -q --detach $(git -C /repo rev-parse HEAD) && git checkout -q -- . && git clean -qfd
for item in "$@"; do
  IFS=: read PROP SRC NAME CHECKS <<< "$item"
  CHECKS=${CHECKS:-$PROP}; CHECKS=${CHECKS//,/ }
  SRC=$(readlink -f $SRC)
  res() { echo "$NAME: $*"; }
  cd $R; git checkout -q -- .; git clean -qfd
  git apply --check $SRC/patch.diff 2>/dev/null || { res "PATCH-DOES-NOT-APPLY"; continue; }
  cp $SRC/demo_test.go ./zz_demo_test.go
  timeout 300 go test -vet=off -count=1 -run 'TestSeededDemo' . > $V/seed-clean.log 2>&1; c0=$?
  git apply $SRC/patch.diff
  go build ./... > $V/seed-build.log 2>&1 || { res "DOES-NOT-COMPILE"; rm -f zz_demo_test.go; continue; }
  timeout 300 go test -vet=off -count=1 -run 'TestSeededDemo' . > $V/seed-patched.log 2>&1; c1=$?
  rm -f zz_demo_test.go
  flock /tmp/seed-suite.lock go test -vet=off -count=1 . ./internal/... > $V/seed-suite.log 2>&1; s1=$?
  [ $s1 -eq 0 ] || { flock /tmp/seed-suite.lock go test -vet=off -count=1 . ./internal/... > $V/seed-suite.log 2>&1; s1=$?; }
  [ $c0 -eq 0 ] || { res "DEMO-FAILS-WITHOUT-PATCH"; continue; }
  [ $c1 -ne 0 ] || { res "DEMO-PASSES-WITH-PATCH"; continue; }
  [ $s1 -eq 0 ] || { res "EXISTING-SUITE-FAILS-WITH-PATCH ($(grep -m1 -- '--- FAIL' $V/seed-suite.log))"; continue; }
  out=""; caught=""
  for c in $CHECKS; do
    o=$(VF_REPO=$R VF_NPROC=${LANE_NPROC:-5} VF_BUDGET_S=480 VF_RACE_BUDGET_S=240 VF_MIN_S=5 $V/bin/vfcheck run $c quick 2>&1); rc=$?
    if [ $rc -eq 1 ]; then caught="$caught $c"; out="$out$c: $(echo "$o" | grep -m1 'class=' | cut -c1-260)\n";
    elif [ $rc -ne 0 ]; then out="$out$c: TROUBLE rc=$rc $(echo "$o" | tail -2 | cut -c1-200)\n"; fi
  done
  git checkout -q -- .
  rm -f $V/replays/*
  mkdir -p /verif/seeded/$NAME
  cp $SRC/patch.diff $SRC/demo_test.go /verif/seeded/$NAME/ 2>/dev/null; cp $SRC/notes.md /verif/seeded/$NAME/ 2>/dev/null
  python3 - "$PROP" "$NAME" "$caught" "$CHECKS" <<'EOP'
import json,sys,subprocess,os
prop,name,caught,checks=sys.argv[1:5]
p='/verif/seeded/%s/'%name
notes=open(p+'notes.md').read() if os.path.exists(p+'notes.md') else ''
meta={'property':prop,'name':name,'origin':'sub-agent given only the property text and a scratch worktree','base_commit':subprocess.run(['git','-C','/repo','rev-parse','--short','HEAD'],capture_output=True,text=True).stdout.strip(),
 'needs_to_manifest':notes.strip().split('\n')[0:12],
 'confirmed':{'compiles':True,'existing_suite_passes_with_patch':True,'demo_fails_with_patch':True,'demo_passes_without_patch':True,'how':'bin/seedlane.sh in a scratch worktree /tmp/wt-lane-N (also the tree the checks were built from, via VF_REPO)'},
 'checks_run':checks.split(),'caught_by':caught.split()}
if os.path.exists(p+'meta.json'):
    old=json.load(open(p+'meta.json'))
    meta['first_evaluation']=old.get('first_evaluation', {'checks_run':old.get('checks_run'),'caught_by':old.get('caught_by')})
json.dump(meta,open(p+'meta.json','w'),indent=1)
EOP
  if [ -n "$caught" ]; then res "CAUGHT by$caught"; else res "MISSED by $CHECKS"; fi
  printf "$out"
done
