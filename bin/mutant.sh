#!/bin/bash
# mutant.sh <patch> <PROP> [runs] — applies a patch to /repo, runs the quick check, reverts. Prints KILLED/SURVIVED.
P=$(readlink -f $1); PROP=$2; RUNS=${3:-}
BIN=$(dirname $(readlink -f $0))
cd /repo || exit 2
if ! git diff --quiet; then echo "/repo has uncommitted changes"; exit 2; fi
git apply "$P" || { echo "patch does not apply: $P"; exit 2; }
# the evidence directory is put back afterwards: evidence must only ever come from the unchanged tree
EV=/dev/shm/vf-ev-save.$$; cp -a /verif/evidence $EV
trap 'git -C /repo checkout -- . ; rm -rf /verif/evidence; mv $EV /verif/evidence' EXIT
if ! (GOFLAGS=-mod=mod GOPROXY=off go build ./... 2>/dev/null); then echo "DOES-NOT-COMPILE $P"; exit 3; fi
if [ -n "${VF_MUT_SUITE:-}" ]; then
  GOFLAGS=-mod=mod GOPROXY=off go test -vet=off -count=1 . >/dev/null 2>&1 || { echo "EXISTING-TESTS-FAIL $P"; exit 4; }
fi
out=$(VF_RUNS=$RUNS VF_MIN_S=5 $BIN/vfcheck run $PROP quick 2>&1); rc=$?
if [ $rc -eq 1 ]; then echo "KILLED $PROP $(basename $P): $(echo "$out" | grep -m1 'class=' | cut -c1-200)";
elif [ $rc -eq 0 ]; then echo "SURVIVED $PROP $(basename $P)"; else echo "TROUBLE($rc) $PROP $(basename $P): $(echo "$out" | tail -5)"; fi
find /verif/replays -type f -newer "$P" -delete 2>/dev/null
exit 0
