#!/usr/bin/env python3
"""mkmutant.py <out.patch> <file> <old> <new> [<file> <old> <new> ...] — writes a git-applicable patch against /repo's
current tree that replaces <old> by <new> (exactly one occurrence unless the old text ends with '@@all')."""
import sys, difflib
out = sys.argv[1]
args = sys.argv[2:]
patch = ''
for i in range(0, len(args), 3):
    fn, old, new = args[i:i+3]
    src = open('/repo/' + fn).read()
    assert src.count(old) == 1, (fn, old, src.count(old))
    dst = src.replace(old, new)
    patch += ''.join(difflib.unified_diff(src.splitlines(True), dst.splitlines(True), 'a/' + fn, 'b/' + fn))
open(out, 'w').write(patch)
