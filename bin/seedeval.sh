#!/bin/bash
# seedeval.sh <PROP> <variant-dir> <name> [check-props...] — confirms and evaluates one independently written breakage.
# Runs as lane 0 of seedlane.sh with all cores: scratch worktree /tmp/wt-lane-0 (confirmation, and the tree the checks are
# built from), scratch copy of /verif in /tmp/vf-lane-0 (so /verif/evidence is never written from a changed tree; an earlier
# version of this script applied the change to /repo itself and left such evidence files behind until the next clean run).
PROP=$1; SRC=$2; NAME=$3; shift 3
C=$(echo "$@" | tr ' ' ',')
LANE_NPROC=16 exec $(dirname $(readlink -f $0))/seedlane.sh 0 "$PROP:$SRC:$NAME${C:+:$C}"
