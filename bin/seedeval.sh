#!/bin/bash
# seedeval.sh <PROP> <variant-dir> <name> [check-props...] — confirms an independently written breakage in a scratch
# worktree (compiles, existing suite passes, demo fails with / passes without), then runs our check(s) against it
# in /repo (applied, checked, reverted) and files it under /verif/seeded/<name>/.
PROP=$1; SRC=$(readlink -f $2); NAME=$3; shift 3; CHECKS=${@:-$PROP}
V=/verif; E=/tmp/wt-eval
export GOFLAGS=-mod=mod GOPROXY=off
cd /repo || exit 2
git diff --quiet || { echo "/repo dirty"; exit 2; }
[ -d $E ] || git worktree add -q --detach $E HEAD
cd $E && git checkout -q --detach $(git -C /repo rev-parse HEAD) && git checkout -q -- . && git clean -qfd
res() { echo "$NAME: $*"; }
git apply --check $SRC/patch.diff 2>/dev/null || { res "PATCH-DOES-NOT-APPLY"; exit 0; }
# without the patch the demo passes
cp $SRC/demo_test.go ./zz_demo_test.go
go test -vet=off -count=1 -run 'TestSeededDemo' . > /tmp/seed-clean.log 2>&1; c0=$?
git apply $SRC/patch.diff
go build ./... > /tmp/seed-build.log 2>&1 || { res "DOES-NOT-COMPILE"; git checkout -q -- .; rm -f zz_demo_test.go; exit 0; }
go test -vet=off -count=1 -run 'TestSeededDemo' . > /tmp/seed-patched.log 2>&1; c1=$?
rm -f zz_demo_test.go
go test -vet=off -count=1 . ./internal/... > /tmp/seed-suite.log 2>&1; s1=$?
git checkout -q -- .
[ $c0 -eq 0 ] || { res "DEMO-FAILS-WITHOUT-PATCH"; exit 0; }
[ $c1 -ne 0 ] || { res "DEMO-PASSES-WITH-PATCH"; exit 0; }
[ $s1 -eq 0 ] || { res "EXISTING-SUITE-FAILS-WITH-PATCH ($(grep -m1 -- '--- FAIL' /tmp/seed-suite.log))"; exit 0; }
# our checks
cd /repo && git apply $SRC/patch.diff || exit 2
out=""; caught=""
for c in $CHECKS; do
  o=$(VF_MIN_S=5 $V/bin/vfcheck run $c quick 2>&1); rc=$?
  if [ $rc -eq 1 ]; then caught="$caught $c"; out="$out$c: $(echo "$o" | grep -m1 'class=' | cut -c1-260)\n"; 
  elif [ $rc -ne 0 ]; then out="$out$c: TROUBLE rc=$rc $(echo "$o" | tail -2 | cut -c1-200)\n"; fi
done
git checkout -q -- .
find $V/replays -type f -newer $SRC/patch.diff -mmin -10 -delete 2>/dev/null
mkdir -p $V/seeded/$NAME
cp $SRC/patch.diff $SRC/demo_test.go $V/seeded/$NAME/ 2>/dev/null; cp $SRC/notes.md $V/seeded/$NAME/ 2>/dev/null
python3 - "$PROP" "$NAME" "$caught" "$CHECKS" <<'EOP'
import json,sys,subprocess
prop,name,caught,checks=sys.argv[1:5]
notes=open('/verif/seeded/%s/notes.md'%name).read() if __import__('os').path.exists('/verif/seeded/%s/notes.md'%name) else ''
meta={'property':prop,'name':name,'origin':'sub-agent given only the property text and a scratch worktree','base_commit':subprocess.run(['git','-C','/repo','rev-parse','--short','HEAD'],capture_output=True,text=True).stdout.strip(),
 'needs_to_manifest':notes.strip().split('\n')[0:12],
 'confirmed':{'compiles':True,'existing_suite_passes_with_patch':True,'demo_fails_with_patch':True,'demo_passes_without_patch':True,'how':'bin/seedeval.sh in scratch worktree /tmp/wt-eval'},
 'checks_run':checks.split(),'caught_by':caught.split()}
import os
if os.path.exists('/verif/seeded/%s/meta.json'%name):
    old=json.load(open('/verif/seeded/%s/meta.json'%name))
    meta['first_evaluation']=old.get('first_evaluation', {'checks_run':old.get('checks_run'),'caught_by':old.get('caught_by')})
json.dump(meta,open('/verif/seeded/%s/meta.json'%name,'w'),indent=1)
EOP
if [ -n "$caught" ]; then res "CAUGHT by$caught"; else res "MISSED by $CHECKS"; fi
printf "$out"
