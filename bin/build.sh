#!/bin/bash
# Builds the simulation test binary from /repo's current working tree + /verif/harness (overlay).
# Exit 2 on any build trouble (never a VIOLATION).
set -u
export GOFLAGS=-mod=mod GOPROXY=off GOSUMDB=off GOTOOLCHAIN=local GONOSUMCHECK=1 GONOSUMDB='*' GOFLAGS=-mod=mod
V=$(dirname $(dirname $(readlink -f $0)))
B=$V/build
REPO=${VF_REPO:-/repo}
OUT=${1:-$B/sftp.verif.test}
mkdir -p $B
exec 9>$B/.lock
flock 9
# module file = the repo's own + the checker library
cp $REPO/go.mod $B/go.mod
cp $REPO/go.sum $B/go.sum
cat >> $B/go.mod <<EOM

require github.com/anishathalye/porcupine v1.3.0
EOM
# overlay: harness files appear as in-package test files
python3 - "$REPO" "$V/harness" > $B/overlay.json <<'EOP'
import json, os, sys
repo, h = sys.argv[1], sys.argv[2]
m = {}
for f in sorted(os.listdir(h)):
    if f.endswith('.go'):
        m[os.path.join(repo, 'zz_vf_' + f[:-3] + '_test.go')] = os.path.join(h, f)
print(json.dumps({'Replace': m}))
EOP
cd $REPO || exit 2
RACE=${VF_RACE:+-race}
if ! go1.26.8 test -c $RACE -tags verif -overlay $B/overlay.json -modfile $B/go.mod -vet=off -o $OUT . > $B/build.log 2>&1; then
  echo "VF-BUILD-FAILED (see $B/build.log)" >&2
  tail -30 $B/build.log >&2
  exit 2
fi
exit 0
