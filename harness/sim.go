//go:build verif

package sftp

// Deterministic simulator core: tape (the only source of choice), parking of
// goroutines at seams, the scheduler loop, event log hashing, draining, goroutine census.

import (
	"fmt"
	"math/rand/v2"
	"os"
	"runtime"
	"sort"
	"strings"
	"sync"
	"sync/atomic"
	"testing/synctest"
	"time"
)

// ---------------------------------------------------------------- tape

// vfTape is the only source of in-run choices. In generation mode the choices come
// from a PRNG seeded by the scenario seed and are recorded; in replay mode the recorded
// choices are replayed and, once exhausted, index 0 is taken (so truncation is a valid shrink).
type vfTape struct {
	rec    []int
	pos    int
	rng    *rand.Rand
	replay bool
	out    []int
}

func (t *vfTape) next(n int) int {
	if n <= 1 {
		return 0
	}
	var v int
	if t.replay {
		if t.pos < len(t.rec) {
			v = t.rec[t.pos] % n
			if v < 0 {
				v = -v
			}
		}
		t.pos++
	} else {
		v = t.rng.IntN(n)
	}
	t.out = append(t.out, v)
	return v
}

func vfRng(seed, stream uint64) *rand.Rand {
	return rand.New(rand.NewPCG(seed, stream^0x9e3779b97f4a7c15))
}

func vfMix(a, b uint64) uint64 {
	z := a + 0x9e3779b97f4a7c15*(b+1)
	z = (z ^ (z >> 30)) * 0xbf58476d1ce4e5b9
	z = (z ^ (z >> 27)) * 0x94d049bb133111eb
	return z ^ (z >> 31)
}

// ---------------------------------------------------------------- violations

type vfViolation struct {
	Class string `json:"class"` // monitor/clause, stable across shrinking
	Sig   string `json:"sig"`   // specific failing thing (used for known findings)
	Msg   string `json:"msg"`
}

// ---------------------------------------------------------------- sim

type vfWaiter struct {
	key   string
	ch    chan struct{}
	try   func() bool
	stale bool
}

type vfEvent struct {
	key  string
	fire func()
}

type vfSim struct {
	mu       sync.Mutex
	tape     *vfTape
	parked   map[string]*vfWaiter
	sources  []func(add func(key string, fire func()))
	sites    map[string]bool
	pipes    []*vfPipe
	draining bool

	seq       int
	hash      uint64 // hash of the full event log (eligible sets + choices)
	shash     uint64 // hash of the chosen keys only ("schedule")
	trace     []string
	traceOn   bool
	viol      *vfViolation
	stats     map[string]int
	maxSteps  int
	steps     int
	stuck     bool
	inv       func() // invariant evaluated at every quiescent point
	onStep    func(key string)
	pct       bool           // priority scheduling instead of uniform choice
	prio      map[string]int // event key -> priority
	ticks     bool           // allow clock ticks when nothing is eligible
	holdKey   string         // a hook waiter with exactly this key is only released when holdFn says so (a request that stays
	holdFn    func() bool    // in its worker while a long pipeline builds up behind it)
	sendProbe func() bool    // if set, cc.send waiters are released only when this probe of the connection's write lock succeeds
	double    bool           // race-detector phase: some steps release two parked goroutines at once (they then really overlap)
	start     time.Time
}

var vfTraceSets = os.Getenv("VF_TRACESETS") == "1"
var vfCur atomic.Pointer[vfSim]
var vfProgress atomic.Int64

func vfNewSim(tape *vfTape, maxSteps int) *vfSim {
	s := &vfSim{
		tape:     tape,
		parked:   map[string]*vfWaiter{},
		sites:    map[string]bool{},
		stats:    map[string]int{},
		prio:     map[string]int{},
		maxSteps: maxSteps,
		hash:     14695981039346656037,
		shash:    14695981039346656037,
		start:    time.Now(),
	}
	vfCur.Store(s)
	simHook = vfHook
	simLockHook = vfLockHook
	return s
}

func vfHook(site string, key uint64) {
	s := vfCur.Load()
	if s == nil || !s.sites[site] {
		return
	}
	if site == "cc.send" && s.sendProbe != nil {
		s.park(fmt.Sprintf("h:%s:%010d", site, key), s.sendProbe)
		return
	}
	k := fmt.Sprintf("h:%s:%010d", site, key)
	if k == s.holdKey && s.holdFn != nil {
		s.park(k, s.holdFn)
		return
	}
	s.park(k, nil)
}

func vfLockHook(site string, key uint64, try func() bool) {
	s := vfCur.Load()
	if s == nil || !s.sites[site] {
		return
	}
	s.park(fmt.Sprintf("h:%s:%02d", site, key), try)
}

func (s *vfSim) count(k string) {
	s.mu.Lock()
	s.stats[k]++
	s.mu.Unlock()
}

func (s *vfSim) countN(k string, n int) {
	s.mu.Lock()
	s.stats[k] += n
	s.mu.Unlock()
}

func (s *vfSim) fail(class, sig, format string, args ...any) {
	s.mu.Lock()
	if s.viol == nil {
		s.viol = &vfViolation{Class: class, Sig: sig, Msg: fmt.Sprintf(format, args...)}
	}
	s.mu.Unlock()
}

func (s *vfSim) failed() bool {
	s.mu.Lock()
	defer s.mu.Unlock()
	return s.viol != nil
}

func (s *vfSim) tracef(format string, args ...any) {
	if s.traceOn {
		s.mu.Lock()
		s.trace = append(s.trace, fmt.Sprintf("      "+format, args...))
		s.mu.Unlock()
	}
}

// park blocks the calling goroutine until the scheduler releases it.
func (s *vfSim) park(key string, try func() bool) {
	s.mu.Lock()
	if s.draining {
		s.mu.Unlock()
		return
	}
	k := key
	for i := 2; ; i++ {
		if _, ok := s.parked[k]; !ok {
			break
		}
		k = fmt.Sprintf("%s#%d", key, i)
	}
	w := &vfWaiter{key: k, ch: make(chan struct{}), try: try}
	s.parked[k] = w
	s.mu.Unlock()
	<-w.ch
}

func (s *vfSim) isParked(prefix string) bool {
	s.mu.Lock()
	defer s.mu.Unlock()
	for k := range s.parked {
		if strings.HasPrefix(k, prefix) {
			return true
		}
	}
	return false
}

func (s *vfSim) parkedKeys() []string {
	s.mu.Lock()
	defer s.mu.Unlock()
	ks := make([]string, 0, len(s.parked))
	for k := range s.parked {
		ks = append(ks, k)
	}
	sort.Strings(ks)
	return ks
}

func (s *vfSim) addSource(f func(add func(key string, fire func()))) {
	s.sources = append(s.sources, f)
}

func (s *vfSim) hashStr(h *uint64, str string) {
	for i := 0; i < len(str); i++ {
		*h ^= uint64(str[i])
		*h *= 1099511628211
	}
	*h ^= 0xff
	*h *= 1099511628211
}

// collect returns the eligible events in canonical (key) order.
func (s *vfSim) collect() []vfEvent {
	var evs []vfEvent
	s.mu.Lock()
	for _, w := range s.parked {
		if w.stale {
			continue
		}
		w := w
		evs = append(evs, vfEvent{key: w.key, fire: func() { s.releaseWaiter(w) }})
	}
	s.mu.Unlock()
	add := func(key string, fire func()) { evs = append(evs, vfEvent{key, fire}) }
	for _, src := range s.sources {
		src(add)
	}
	sort.Slice(evs, func(i, j int) bool { return evs[i].key < evs[j].key })
	return evs
}

func (s *vfSim) releaseWaiter(w *vfWaiter) {
	if w.try != nil && !w.try() {
		s.mu.Lock()
		w.stale = true
		s.stats["lockprobe.failed"]++
		s.mu.Unlock()
		return
	}
	s.mu.Lock()
	delete(s.parked, w.key)
	for _, o := range s.parked {
		o.stale = false
	}
	s.mu.Unlock()
	close(w.ch)
}

// step performs one scheduling decision. It returns false when nothing is eligible.
func (s *vfSim) step(filter func(key string) bool) bool {
	synctest.Wait()
	vfProgress.Add(1)
	if s.inv != nil {
		s.inv()
	}
	evs := s.collect()
	if filter != nil {
		k := 0
		for _, e := range evs {
			if filter(e.key) {
				evs[k] = e
				k++
			}
		}
		evs = evs[:k]
	}
	if len(evs) == 0 {
		return false
	}
	var i int
	if s.pct {
		// priority scheduling: every event key gets a random priority when first seen; the highest
		// eligible priority runs. Low-priority events are starved until nothing else can run, which
		// realises the long delays that uniform choice almost never produces.
		best := -1
		for j, x := range evs {
			pr, ok := s.prio[x.key]
			if !ok {
				pr = 1 + s.tape.next(1<<20)
				s.prio[x.key] = pr
			}
			if best < 0 || pr > s.prio[evs[best].key] {
				best = j
			}
		}
		i = best
		// now and then the running event is demoted
		if s.tape.next(16) == 0 {
			s.prio[evs[i].key] = 0
		}
	} else {
		i = s.tape.next(len(evs))
	}
	e := evs[i]
	s.seq++
	s.steps++
	for _, x := range evs {
		s.hashStr(&s.hash, x.key)
	}
	s.hashStr(&s.hash, e.key)
	s.hashStr(&s.shash, e.key)
	if s.traceOn {
		s.mu.Lock()
		line := fmt.Sprintf("%5d %s   (of %d)", s.seq, e.key, len(evs))
		if vfTraceSets {
			for _, x := range evs {
				line += " " + x.key
			}
		}
		s.trace = append(s.trace, line)
		s.mu.Unlock()
	}
	// a fired non-probe event makes stale lock waiters eligible again
	if !strings.HasPrefix(e.key, "h:f.lock") && !strings.HasPrefix(e.key, "h:cc.mu") && e.key != s.holdKey && !(s.sendProbe != nil && strings.HasPrefix(e.key, "h:cc.send")) {
		s.mu.Lock()
		for _, o := range s.parked {
			o.stale = false
		}
		s.mu.Unlock()
	}
	if s.onStep != nil {
		s.onStep(e.key)
	}
	// Double release (only in the race-enabled phase, cfg.double): now and then a second parked caller task or package
	// goroutine is released in the same step. The two then run side by side with no happens-before edge between them other
	// than the package's own synchronisation - which is what the race detector is there to judge. Every other step, and
	// every run of the checks proper, releases exactly one thing.
	var e2 *vfEvent
	if s.double && vfPlainWaiter(e.key, s) && s.tape.next(4) == 0 {
		var cand []int
		for j, x := range evs {
			if j != i && vfPlainWaiter(x.key, s) {
				cand = append(cand, j)
			}
		}
		if len(cand) > 0 {
			e2 = &evs[cand[s.tape.next(len(cand))]]
			s.hashStr(&s.hash, "+"+e2.key)
			s.hashStr(&s.shash, "+"+e2.key)
			s.stats["fault.double_release"]++
			if s.traceOn {
				s.mu.Lock()
				s.trace = append(s.trace, fmt.Sprintf("      + %s (released in the same step)", e2.key))
				s.mu.Unlock()
			}
			if s.onStep != nil {
				s.onStep(e2.key)
			}
		}
	}
	e.fire()
	if e2 != nil {
		e2.fire()
	}
	return true
}

// vfPlainWaiter: a parked caller task or a goroutine parked at a plain hook site (not a lock probe, not a held key).
func vfPlainWaiter(key string, s *vfSim) bool {
	if strings.HasPrefix(key, "t:") {
		return true
	}
	if !strings.HasPrefix(key, "h:") || strings.HasPrefix(key, "h:f.lock") || strings.HasPrefix(key, "h:cc.mu") || key == s.holdKey {
		return false
	}
	if s.sendProbe != nil && strings.HasPrefix(key, "h:cc.send") {
		return false
	}
	return true
}

// run steps until nothing is eligible, the step budget is spent, a violation is
// recorded, or done() says so.
func (s *vfSim) run(done func() bool) {
	idleTicks := 0
	for s.steps < s.maxSteps {
		if s.failed() {
			return
		}
		if done != nil {
			synctest.Wait()
			if done() {
				return
			}
		}
		if !s.step(nil) {
			if s.ticks && idleTicks < 6 {
				// nothing eligible: maybe somebody sleeps on the fake clock
				d := []time.Duration{time.Millisecond, 50 * time.Millisecond, time.Second, time.Minute, time.Hour, 24 * time.Hour}[idleTicks]
				idleTicks++
				time.Sleep(d)
				s.stats["tick"]++
				continue
			}
			s.stuck = true
			return
		}
		idleTicks = 0
	}
}

// quiesce waits until every bubble goroutine is durably blocked.
func (s *vfSim) quiesce() { synctest.Wait(); vfProgress.Add(1) }

// drain releases everything so that all goroutines of the run can finish.
func (s *vfSim) drain() {
	s.mu.Lock()
	s.draining = true
	ws := make([]*vfWaiter, 0, len(s.parked))
	for _, w := range s.parked {
		ws = append(ws, w)
	}
	s.parked = map[string]*vfWaiter{}
	s.mu.Unlock()
	for _, w := range ws {
		close(w.ch)
	}
	for _, p := range s.pipes {
		p.abort()
	}
}

// ---------------------------------------------------------------- goroutine census

// vfBubbleGoroutines returns, for every goroutine of the current synctest bubble
// other than the caller, a one-line description "state | top package frame".
func vfBubbleGoroutines() []string {
	buf := make([]byte, 1<<20)
	for {
		n := runtime.Stack(buf, true)
		if n < len(buf) {
			buf = buf[:n]
			break
		}
		buf = make([]byte, 2*len(buf))
	}
	var out []string
	blocks := strings.Split(string(buf), "\n\n")
	for i, b := range blocks {
		if i == 0 {
			continue // the caller
		}
		lines := strings.Split(b, "\n")
		if len(lines) == 0 || !strings.Contains(lines[0], "synctest bubble") {
			continue
		}
		top := ""
		for _, l := range lines[1:] {
			if strings.HasPrefix(l, "github.com/pkg/sftp.") {
				f := strings.TrimPrefix(l, "github.com/pkg/sftp.")
				if j := strings.LastIndex(f, "("); j > 0 {
					f = f[:j]
				}
				// harness frames (vf*, (*vf...), TestVF) do not count
				g := strings.TrimLeft(f, "(*")
				if strings.HasPrefix(g, "vf") || strings.HasPrefix(g, "TestVF") || strings.HasPrefix(g, "sf") || strings.HasPrefix(g, "c0") || strings.HasPrefix(g, "c1") || strings.HasPrefix(g, "c2") {
					continue
				}
				top = f
				break
			}
		}
		if top == "" {
			continue // no package code on this stack
		}
		hdr := lines[0]
		if j := strings.Index(hdr, "["); j >= 0 {
			hdr = hdr[j:]
		}
		out = append(out, hdr+" "+top)
	}
	sort.Strings(out)
	return out
}
