//go:build verif

package sftp

// C07 — no byte stream can crash, wedge or trick a server.

import (
	"bytes"
	"encoding/binary"
	"fmt"
	"strings"
)

func init() {
	vfRegister(&vfProp{
		noDouble:  true,
		id:        "C07",
		classes:   []string{"os", "os-alloc", "rs", "rs-alloc"},
		gen:       c07Gen,
		exec:      c07Exec,
		enumerate: c07Enumerate,
		valid:     vfValidSessionProgram,
		maxSteps:  40000,
	})
}

var c07Vals = []uint32{0, 1, 0, 0, 256 * 1024, 256*1024 + 1, 0x7fffffff, 0xffffffff} // 2,3: n-1, n+1

func c07Base(class string, seed uint64) *vfScenario {
	rng := vfRng(seed, 1)
	sc := &vfScenario{Cfg: map[string]int64{"window": 1}}
	switch class {
	case "os":
		sc.Cfg["kind"] = 0
	case "os-alloc":
		sc.Cfg["kind"], sc.Cfg["alloc"] = 0, 1
	case "rs":
		sc.Cfg["kind"] = 1
	case "rs-alloc":
		sc.Cfg["kind"], sc.Cfg["alloc"] = 1, 1
	}
	if sc.Cfg["kind"] == 1 {
		sc.Cfg["hopt"] = int64([]int{1, 1 | 2 | 4, 1 | 128, 0}[rng.IntN(4)])
	}
	sc.Cfg["sites"] = int64(1 + rng.IntN(3))
	sc.Cfg["errwithdata"] = int64(rng.IntN(2))
	g := &vfProgGen{rng: rng, kind: int(sc.Cfg["kind"])}
	g.add(vfOp{K: "init", A: 3})
	n := 2 + rng.IntN(16)
	for len(g.ops) < n {
		g.step(false)
	}
	// no "wait" markers: the session is stop-and-wait anyway
	for _, op := range g.ops {
		if op.K != "wait" {
			sc.Ops = append(sc.Ops, op)
		}
	}
	return sc
}

func c07Gen(class string, seed uint64, tier string) *vfScenario {
	sc := c07Base(class, seed)
	rng := vfRng(seed, 2)
	f := vfFault{K: "mutate", At: int64(rng.IntN(len(sc.Ops)))}
	switch x := rng.IntN(100); {
	case x < 30:
		f.A, f.B = 0, int64(rng.IntN(60))
	case x < 70:
		f.A, f.B, f.S = 1, int64([]int{0, 0, 5, 9, 13}[rng.IntN(5)]+rng.IntN(30)*(rng.IntN(2))), fmt.Sprint(rng.IntN(8))
	case x < 90:
		// mostly another request type (the body is then decoded by another decoder), sometimes any byte
		f.A, f.B = 2, int64([]int{3, 4, 5, 6, 7, 8, 9, 10, 11, 12, 13, 14, 15, 16, 17, 18, 19, 20, 200, 1}[rng.IntN(20)])
		if rng.IntN(4) == 0 {
			f.B = int64(rng.IntN(256))
		}
	case x < 96:
		f.A, f.B = 3, int64(1+rng.IntN(12))
	default:
		f.A = 4
	}
	sc.Faults = []vfFault{f}
	return sc
}

type c07Gold struct{ lens []int }

func c07Enumerate(tier string, base uint64, emit func(*vfScenario)) {
	nbase := 4
	if tier == "thorough" {
		nbase = 40
	}
	classes := []string{"os", "rs", "os-alloc", "rs-alloc"}
	for bi := 0; bi < nbase; bi++ {
		class := classes[bi%4]
		seed := vfMix(vfMix(base, 0xc07e), uint64(bi))
		b := c07Base(class, seed)
		b.Prop, b.Class, b.Seed = "C07", "enum-"+class, seed
		g := b.clone()
		g.Prop = "C07"
		res := vfExecute(vfT, g, false)
		gold, _ := res.Extra.(*c07Gold)
		if gold == nil {
			continue
		}
		for ri, ln := range gold.lens {
			add := func(f vfFault) {
				f.K, f.At = "mutate", int64(ri)
				sc := b.clone()
				sc.Faults = []vfFault{f}
				emit(sc)
			}
			step := 1
			if tier != "thorough" {
				step = 2
			}
			for cut := 0; cut < ln; cut += step {
				add(vfFault{A: 0, B: int64(cut)})
			}
			for pos := 0; pos+4 <= ln; pos += step {
				if pos > 0 && pos < 5 {
					continue
				}
				for vi := 0; vi < 8; vi++ {
					add(vfFault{A: 1, B: int64(pos), S: fmt.Sprint(vi)})
				}
			}
			tstep := 1
			if tier != "thorough" {
				tstep = 5
			}
			for t := (ri * 3) % tstep; t < 256; t += tstep {
				add(vfFault{A: 2, B: int64(t)})
			}
			if tstep > 1 {
				for _, t := range []int{1, 3, 4, 5, 6, 7, 8, 9, 10, 11, 12, 13, 14, 15, 16, 17, 18, 19, 20, 200} {
					add(vfFault{A: 2, B: int64(t)}) // every request type in every tier
				}
			}
			add(vfFault{A: 3, B: 5})
			add(vfFault{A: 4})
		}
	}
}

func c07Mutate(frame []byte, f vfFault) (out []byte, stopAfter bool) {
	b := append([]byte(nil), frame...)
	switch f.A {
	case 0:
		if int(f.B) < len(b) {
			return b[:f.B], true
		}
		return b, false
	case 1:
		pos := int(f.B)
		if pos+4 <= len(b) {
			n := binary.BigEndian.Uint32(b[pos:])
			var vi int
			fmt.Sscanf(f.S, "%d", &vi)
			v := c07Vals[vi%8]
			switch vi % 8 {
			case 2:
				v = n - 1
			case 3:
				v = n + 1
			}
			binary.BigEndian.PutUint32(b[pos:], v)
		}
	case 2:
		if len(b) > 4 {
			b[4] = byte(f.B)
		}
	case 3:
		for i := 0; i < int(f.B); i++ {
			b = append(b, byte(0x5a+i*7))
		}
	case 4:
		// a zero-length frame in front of an otherwise valid request
		b = append([]byte{0, 0, 0, 0}, b...)
	}
	return b, false
}

// c07Judge cuts a client->server byte stream into frames and finds the first one that is not
// a well-formed request. It returns the offset at which that frame starts (-1: none), and
// whether the verdict is clear-cut.
func c07Judge(stream []byte) (badAt int, ambiguous bool, why string) {
	pos := 0
	for pos < len(stream) {
		if len(stream)-pos < 4 {
			return pos, false, "stream ends inside a length prefix"
		}
		n := int(binary.BigEndian.Uint32(stream[pos:]))
		if n == 0 {
			return pos, false, "zero-length frame"
		}
		if n > 256*1024 {
			return pos, false, "frame longer than 256 KiB"
		}
		if len(stream)-pos-4 < n {
			return pos, false, "stream ends inside a frame"
		}
		body := stream[pos+4 : pos+4+n]
		q, err := wParseReq(body)
		if err != nil && q != nil && q.Type == wtExtended && q.ExtName != "" && q.ExtName != "statvfs@openssh.com" && q.ExtName != "posix-rename@openssh.com" && q.ExtName != "hardlink@openssh.com" {
			// an extension this package's servers do not implement: its payload is opaque to them
			err = nil
		}
		if err != nil {
			// attribute blocks: a flags word that promises values that are not there.
			// The draft calls that malformed; servers commonly ignore attributes they do not use.
			if q != nil && (q.Type == wtOpen || q.Type == wtMkdir || q.Type == wtSetstat || q.Type == wtFsetstat) && c07OnlyAttrsShort(body) {
				return pos, true, "attribute block shorter than its flags promise"
			}
			return pos, false, fmt.Sprintf("frame does not decode as a request: %v", err)
		}
		if q.Type == wtInit && len(body) < 5 {
			return pos, false, "short init"
		}
		pos += 4 + n
	}
	return -1, false, ""
}

// c07OnlyAttrsShort: the mandatory fields decode, only the attribute values are incomplete.
func c07OnlyAttrsShort(body []byte) bool {
	r := &rbuf{b: body}
	t := r.u8()
	r.u32()
	switch t {
	case wtOpen:
		r.str()
		r.u32()
	case wtMkdir, wtSetstat, wtFsetstat:
		r.str()
	}
	r.u32() // attr flags
	return r.err == nil
}

type c07Outcome struct {
	c2s      []byte
	replies  [][]byte
	snapshot string
	calls    string
	served   bool
	serveErr error
}

// c07Run runs one stop-and-wait session. If raw != nil the given frames are fed instead of the program.
func c07Run(r *vfRun, sim *vfSim, raw [][]byte, tail []byte) *c07Outcome {
	sc := r.sc.clone()
	rr := &vfRun{sc: sc, sim: sim, t: r.t, res: r.res}
	ops := sc.Ops
	if raw != nil {
		// a program of as many placeholder requests as there are frames; every one is replaced by its raw bytes
		ops = make([]vfOp, len(raw))
		for i := range ops {
			ops[i] = vfOp{K: "stat", P: "x"}
		}
		if len(tail) > 0 {
			ops = append(ops, vfOp{K: "stat", P: "x"})
		}
	}
	s := vfStartSession(rr, ops)
	defer s.cleanup()
	wc := s.wc
	wc.window = 1
	wc.rawMode = map[int][]byte{}
	stopAt := -1
	if raw != nil {
		for i, f := range raw {
			wc.rawMode[i] = f
		}
		if len(tail) > 0 {
			wc.rawMode[len(raw)] = tail
		}
	} else {
		for _, f := range sc.Faults {
			if f.K != "mutate" || int(f.At) >= len(ops) {
				continue
			}
			f := f
			i := int(f.At)
			// the request's bytes depend on handles learnt during the session: mutate at send time
			wc.onSend = func(k int, q *wReq) {
				if k == i {
					m, stop := c07Mutate(q.encode(), f)
					wc.rawMode[i] = m
					if stop {
						stopAt = i
					}
					sim.count("fault.peer.badreq")
				}
			}
		}
	}
	gold := &c07Gold{}
	// after a truncated request nothing more is sent
	sim.run(func() bool {
		return stopAt >= 0 && wc.sent > stopAt
	})
	if sim.failed() {
		return nil
	}
	for _, q := range wc.reqs {
		gold.lens = append(gold.lens, len(q.encode()))
	}
	if raw == nil {
		r.res.Extra = gold
	}
	s.finish()
	if sim.failed() {
		return nil
	}
	out := &c07Outcome{c2s: append([]byte(nil), s.srv.c2s.buf...)}
	out.served, out.serveErr = s.srv.served()
	if !out.served {
		sim.fail("C07/serve-did-not-return", "serve", "Serve did not return after the stream ended; blocked: %v", vfBubbleGoroutines())
		return nil
	}
	if left := vfBubbleGoroutines(); len(left) > 0 {
		sim.fail("C07/goroutine-leak", c04LeakSig(left), "Serve returned but %d package goroutines are still alive: %v", len(left), left)
		return nil
	}
	out.replies = wc.raw
	if s.root != "" {
		if left := c11FdCensus(s.root); len(left) > 0 {
			sim.fail("C07/file-left-open", "fd", "Serve returned but %d files of the served tree are still open: %v", len(left), left)
			return nil
		}
		out.snapshot = strings.ReplaceAll(vfSnapshot(s.root, false), s.root, "<root>")
	} else {
		s.fs.mu.Lock()
		for _, o := range s.fs.objs {
			if s.fs.withClose && o.closes != 1 {
				sim.fail("C07/object-close-count", "closes", "handler object %d (%s %s) was closed %d times, want exactly once", o.id, o.kind, o.path, o.closes)
			}
		}
		s.fs.mu.Unlock()
		out.snapshot = s.fs.treeDigest()
		var sb strings.Builder
		for _, c := range s.fs.snapshotCalls() {
			if c.Method == "Close" || c.Method == "TransferError" {
				continue // how many objects are open at the end differs by construction
			}
			fmt.Fprintf(&sb, "%s %s %q %q %x %x obj=%d off=%d n=%d\n", c.Method, c.ReqMeth, c.Filepath, c.Target, c.Flags, c.Attrs, c.Obj, c.Off, c.N)
		}
		out.calls = sb.String()
	}
	if sim.failed() {
		return nil
	}
	return out
}

func c07Exec(r *vfRun) {
	simA := r.sim
	a := c07Run(r, simA, nil, nil)
	if a == nil {
		return
	}
	if len(r.sc.Faults) == 0 {
		r.res.NonTrivial = false
		return
	}
	badAt, ambiguous, why := c07Judge(a.c2s)
	if ambiguous {
		r.res.Skipped = "ambiguous-attrs-block"
		return
	}
	if badAt < 0 {
		// the mutated stream is a sequence of well-formed requests: nothing to refuse
		r.res.Skipped = "mutation-yields-valid-stream"
		return
	}
	// reference: the same server fed the well-formed prefix only
	var fr wFramer
	frames := fr.feed(a.c2s[:badAt])
	raw := make([][]byte, len(frames))
	for i, f := range frames {
		raw[i] = wFrame(f)
	}
	simA.drain()
	simA.quiesce()
	simB := vfNewSim(&vfTape{replay: true}, simA.maxSteps)
	simB.traceOn = simA.traceOn
	b := c07Run(r, simB, raw, nil)
	for k, v := range simB.stats {
		if !strings.HasPrefix(k, "fault.") {
			simA.stats["ref."+k] += v
		}
	}
	if simB.traceOn {
		simA.trace = append(simA.trace, "---- reference run: the well-formed prefix only ----")
		simA.trace = append(simA.trace, simB.trace...)
	}
	if simB.viol != nil {
		simB.viol.Msg = "(reference run) " + simB.viol.Msg
		simA.viol = simB.viol
	}
	simB.drain()
	simB.quiesce()
	vfCur.Store(simA)
	if b == nil || simA.viol != nil {
		return
	}
	what := fmt.Sprintf("first malformed frame at offset %d of the client->server stream (%s); mutation %+v", badAt, why, r.sc.Faults)
	if len(a.replies) > len(b.replies) {
		r.fail("C07/reply-to-malformed-packet", "extra-reply", "the server emitted %d replies, the well-formed prefix has only %d requests; %s; extra: % x", len(a.replies), len(b.replies), what, a.replies[len(b.replies)])
		return
	}
	for i := range a.replies {
		if !bytes.Equal(c18NormaliseFrame(a.replies[i]), c18NormaliseFrame(b.replies[i])) {
			r.fail("C07/replies-not-a-prefix", "prefix", "reply %d differs from the reply the well-formed prefix gets: % x vs % x; %s", i, a.replies[i], b.replies[i], what)
			return
		}
	}
	if a.snapshot != b.snapshot {
		r.fail("C07/malformed-packet-acted-upon", "state", "the served files differ from what the well-formed prefix alone leaves behind; %s\n--- after the mutated stream:\n%s\n--- after the prefix:\n%s", what, a.snapshot, b.snapshot)
		return
	}
	if a.calls != b.calls {
		r.fail("C07/malformed-packet-acted-upon", "handler-calls", "the handler call log differs from that of the well-formed prefix; %s\n--- mutated:\n%s--- prefix:\n%s", what, a.calls, b.calls)
		return
	}
	r.res.NonTrivial = true
	simA.count("probe.malformed_frame_refused")
}

// c18NormaliseFrame masks kernel timestamps etc. in one reply body.
func c18NormaliseFrame(body []byte) []byte {
	out := c18Normalise(wFrame(body), "/dev/shm/vf/")
	// tree names differ between the two runs: blank the run-specific part
	for i := 0; i+9 < len(out); i++ {
		if out[i] == 'r' && i >= 1 && out[i-1] == '/' && isDigits(out[i+1:i+9]) {
			for j := 1; j <= 8; j++ {
				out[i+j] = '0'
			}
		}
	}
	return out
}

func isDigits(b []byte) bool {
	for _, c := range b {
		if c < '0' || c > '9' {
			return false
		}
	}
	return true
}
