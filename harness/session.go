//go:build verif

package sftp

// A "server session": one real server (os-backed or request server), driven by the
// wire-level client with a generated request program. Shared by C02 C07 C11 C14 C18.

import (
	"fmt"
	"math/rand/v2"
	"os"
	"path"
	"strings"
	"syscall"
	"time"
)

func vfNlink(fi os.FileInfo) string {
	if st, ok := fi.Sys().(*syscall.Stat_t); ok && !fi.IsDir() {
		return fmt.Sprintf(" nl=%d", st.Nlink)
	}
	return ""
}

type vfSession struct {
	r    *vfRun
	sim  *vfSim
	srv  *vfServer
	wc   *vfWireClient
	fs   *sfs
	root string
	tag  uint64
}

// standard sites for server-side scheduling
func vfServerSites(sim *vfSim, mask int64) {
	if mask&1 != 0 {
		sim.sites["srv.worker"] = true
		sim.sites["rs.worker"] = true
	}
	if mask&2 != 0 {
		sim.sites["pm.ready"] = true
	}
}

// initial content shared by both server kinds
var vfInitFiles = []struct {
	p string
	n int
}{{"f0", 100}, {"f1", 37}, {"d/a", 5}, {"d/b", 0}, {"d/c", 12}}

func vfStartSession(r *vfRun, ops []vfOp) *vfSession {
	sc := r.sc
	sim := r.sim
	s := &vfSession{r: r, sim: sim, tag: sc.Seed}
	kind := int(sc.cfg("kind", 0))
	alloc := sc.cfg("alloc", 0) != 0
	vfServerSites(sim, sc.cfg("sites", 3))
	var maxTx uint32
	if sc.cfg("maxtx", 0) != 0 {
		maxTx = uint32(sc.cfg("maxtx", 0))
	}
	if kind == 0 {
		// The os-backed server serves the real file system: no request of a generated (or shrunk - the shrinker may
		// turn a request-server scenario with absolute virtual paths into an os-server one) program may name a
		// path outside the run's private tree.
		safe := make([]vfOp, len(ops))
		copy(safe, ops)
		for i := range safe {
			safe[i].P = vfSafeRel(safe[i].P)
			if safe[i].K != "symlink" {
				safe[i].P2 = vfSafeRel(safe[i].P2)
			}
		}
		ops = safe
		s.root = vfNewTree()
		os.Mkdir(s.root+"/d", 0o755)
		for _, f := range vfInitFiles {
			os.WriteFile(s.root+"/"+f.p, vfFill(s.tag^vfHashStr(f.p), 0, f.n), 0o644)
		}
		if n := int(sc.cfg("bigfile", 0)); n > 0 {
			os.WriteFile(s.root+"/big", vfFill(s.tag^vfHashStr("big"), 0, n), 0o644)
		}
		os.Symlink("f0", s.root+"/l0")
		os.Symlink("d", s.root+"/ld")
		os.Symlink("nowhere", s.root+"/ldang")
		s.srv = vfStartServer(sim, 0, alloc, nil, 0, s.root, sc.cfg("readonly", 0) != 0, "", maxTx)
	} else if kind == 3 {
		// the package's own in-memory example backend behind a RequestServer, with the same initial files
		h := InMemHandler()
		mem := h.FileGet.(*root)
		t0 := time.Unix(946684800, 0)
		mem.files["/d"] = &memFile{name: "d", modtime: t0, isdir: true}
		for _, f := range vfInitFiles {
			mem.files["/"+f.p] = &memFile{name: path.Base(f.p), modtime: t0, content: vfFill(s.tag^vfHashStr(f.p), 0, f.n)}
		}
		mem.files["/l0"] = &memFile{name: "l0", modtime: t0, symlink: "/f0"}
		sim.ticks = true // its WriteAt sleeps (on the bubble's clock)
		srv := &vfServer{sim: sim, kind: 1}
		srv.c2s = sim.newPipe("c2s")
		srv.s2c = sim.newPipe("s2c")
		srv.end = &vfEnd{r: srv.c2s, w: srv.s2c, closeBoth: true}
		var opts []RequestServerOption
		if alloc {
			opts = append(opts, vfRSAllocOpt())
		}
		if maxTx != 0 {
			opts = append(opts, WithRSMaxTxPacket(maxTx))
		}
		rs := NewRequestServer(srv.end, h, vfShuffleOpts(opts)...)
		srv.rs = rs
		srv.alloc = rs.pktMgr.alloc
		go func() {
			err := rs.Serve()
			srv.mu.Lock()
			srv.done, srv.err = true, err
			srv.mu.Unlock()
			srv.end.Close()
		}()
		s.srv = srv
	} else {
		s.fs = newSfs(sim)
		s.fs.addDir("/d")
		for _, f := range vfInitFiles {
			s.fs.addFile("/"+f.p, vfFill(s.tag^vfHashStr(f.p), 0, f.n))
		}
		if n := int(sc.cfg("bigfile", 0)); n > 0 {
			s.fs.addFile("/big", vfFill(s.tag^vfHashStr("big"), 0, n))
		}
		s.fs.nodes["/l0"] = &sfNode{kind: 'l', target: "f0", mode: os.ModeSymlink | 0o777, mtime: 946684800}
		s.fs.parkData = sc.cfg("parkdata", 0) != 0
		s.fs.parkCmd = sc.cfg("parkcmd", 0) != 0
		s.fs.listStyle = int(sc.cfg("liststyle", 0))
		s.fs.eofStyle = int(sc.cfg("eofstyle", 0))
		s.fs.withClose = sc.cfg("noclose", 0) == 0
		s.fs.withTErr = sc.cfg("noterr", 0) == 0
		s.srv = vfStartServer(sim, 1, alloc, s.fs, int(sc.cfg("hopt", 0)), "", false, "", maxTx)
	}
	s.wc = vfNewWireClient(sim, s.srv.c2s, s.srv.s2c, ops)
	if maxTx > 200000 {
		s.wc.framer.max = 4 << 20 // the server may be configured to send frames larger than its own receive limit
	}
	s.wc.window = int(sc.cfg("window", 0))
	s.wc.dupIDs = int(sc.cfg("dupids", 0))
	s.wc.halfCls = sc.cfg("halfclose", 0) != 0
	s.wc.dataTag = s.tag
	s.wc.nextID = 10 + uint32(s.tag%5000) // request ids vary per run
	if b := sc.cfg("idbase", 0); b > 0 {
		s.wc.nextID = uint32(b - 1) // ... and in some runs they are as small as the servers' own order ids
	}
	s.srv.c2s.noFrag = sc.cfg("nofrag", 0) != 0
	s.srv.c2s.errWithData = sc.cfg("errwithdata", 0) != 0
	return s
}

// finish ends the session the way a client going away does (if it has not been
// half-closed already), lets Serve return, and removes the served tree.
func (s *vfSession) finish() {
	if !s.wc.closed {
		s.wc.mu.Lock()
		s.wc.closed = true
		s.wc.mu.Unlock()
		s.srv.c2s.closeWriter()
	}
	s.sim.run(func() bool { d, _ := s.srv.served(); return d })
	s.sim.run(nil)
}

func (s *vfSession) cleanup() {
	if s.root != "" {
		vfRemoveTree(s.root)
	}
}

// ---------------------------------------------------------------- program generator

type vfProgGen struct {
	rng      *rand.Rand
	kind     int
	nextSlot int
	open     []int // open file slots
	opendirs []int
	closed   []int
	ops      []vfOp
}

var vfPaths = []string{"f0", "f1", "d", "d/a", "d/b", "nx", "d/nx", "new0", "new1", "l0"}

func (g *vfProgGen) path() string { return vfPaths[g.rng.IntN(len(vfPaths))] }
func (g *vfProgGen) pick(xs []int) int {
	return xs[g.rng.IntN(len(xs))]
}

func (g *vfProgGen) slotForUse() int {
	x := g.rng.IntN(10)
	switch {
	case x == 0:
		return -1 - g.rng.IntN(2) // bogus handle
	case x == 1 && len(g.closed) > 0:
		return g.pick(g.closed)
	case x == 2 && len(g.opendirs) > 0:
		return g.pick(g.opendirs)
	case len(g.open) > 0:
		return g.pick(g.open)
	case len(g.opendirs) > 0:
		return g.pick(g.opendirs)
	}
	return -1
}

func (g *vfProgGen) add(op vfOp) { g.ops = append(g.ops, op) }

// step appends one random request (plus, sometimes, companions).
func (g *vfProgGen) step(safeOnly bool) {
	r := g.rng
	abs := func(p string) string {
		if g.kind == 1 && r.IntN(2) == 0 {
			return "/" + p
		}
		return p
	}
	x := r.IntN(100)
	switch {
	case x < 14:
		pf := []int64{wfRead, wfRead | wfWrite, wfWrite, wfWrite | wfCreat, wfRead | wfWrite | wfCreat | wfTrunc, wfWrite | wfCreat | wfExcl, wfRead | wfAppend}[r.IntN(7)]
		p := []string{"f0", "f1", "d/a", "nx", "new0", "d", "l0"}[r.IntN(7)]
		slot := g.nextSlot
		g.nextSlot++
		g.add(vfOp{K: "open", P: abs(p), A: pf, H: slot})
		g.open = append(g.open, slot)
	case x < 34:
		g.add(vfOp{K: "read", H: g.slotForUse(), Off: int64(r.IntN(120)), N: 1 + r.IntN(64)})
	case x < 50:
		g.add(vfOp{K: "write", H: g.slotForUse(), Off: int64(r.IntN(120)), N: r.IntN(40), B: int64(r.IntN(1000))})
	case x < 58:
		slot := g.slotForUse()
		g.add(vfOp{K: "close", H: slot})
		for i, s := range g.open {
			if s == slot {
				g.open = append(g.open[:i:i], g.open[i+1:]...)
				g.closed = append(g.closed, slot)
				break
			}
		}
		for i, s := range g.opendirs {
			if s == slot {
				g.opendirs = append(g.opendirs[:i:i], g.opendirs[i+1:]...)
				g.closed = append(g.closed, slot)
				break
			}
		}
	case x < 62:
		slot := g.nextSlot
		g.nextSlot++
		g.add(vfOp{K: "opendir", P: abs([]string{"d", ".", "nx", "f0"}[r.IntN(4)]), H: slot})
		g.opendirs = append(g.opendirs, slot)
	case x < 67:
		g.add(vfOp{K: "readdir", H: g.slotForUse()})
	case x < 71:
		g.add(vfOp{K: "fstat", H: g.slotForUse()})
	case x < 75:
		g.add(vfOp{K: "stat", P: abs(g.path())})
	case x < 78:
		g.add(vfOp{K: "lstat", P: abs(g.path())})
	case x < 80:
		g.add(vfOp{K: "realpath", P: []string{".", "d/../f0", "/x//y/", "", "a/./b"}[r.IntN(5)]})
	case x < 82:
		g.add(vfOp{K: "readlink", P: abs([]string{"l0", "f0", "nx"}[r.IntN(3)])})
	case x < 84:
		g.add(vfOp{K: "statvfs", P: abs([]string{".", "f0", "nx"}[r.IntN(3)])})
	case x < 86:
		g.add(vfOp{K: "extunknown", S: []string{"foo@example.com", "fsync@openssh.com", "", "statvfs@openssh.co"}[r.IntN(4)], P: "f0"})
	case x < 87:
		g.add(vfOp{K: "init", A: 3})
	case x < 89:
		g.add(vfOp{K: "wait"})
	case safeOnly:
		g.add(vfOp{K: "stat", P: abs(g.path())})
	case x < 91:
		g.add(vfOp{K: "setstat", P: abs([]string{"f1", "nx", "d/a"}[r.IntN(3)]), B: int64([]int{waSize, waPerm, waTimes, waPerm | waTimes}[r.IntN(4)]), Off: int64(r.IntN(50)), N: 0o600 + r.IntN(64)})
	case x < 93:
		g.add(vfOp{K: "fsetstat", H: g.slotForUse(), B: int64([]int{waSize, waPerm, waTimes}[r.IntN(3)]), Off: int64(r.IntN(50)), N: 0o600 + r.IntN(64)})
	case x < 94:
		g.add(vfOp{K: "mkdir", P: abs([]string{"new0", "d", "nx/y"}[r.IntN(3)])})
	case x < 95:
		g.add(vfOp{K: "rmdir", P: abs([]string{"new0", "d", "nx"}[r.IntN(3)])})
	case x < 96:
		g.add(vfOp{K: "remove", P: abs([]string{"new1", "d/b", "nx"}[r.IntN(3)])})
	case x < 97:
		g.add(vfOp{K: "rename", P: abs([]string{"f1", "nx", "d/c"}[r.IntN(3)]), P2: abs([]string{"new1", "f0"}[r.IntN(2)])})
	case x < 98:
		g.add(vfOp{K: "posixrename", P: abs([]string{"d/c", "nx"}[r.IntN(2)]), P2: abs([]string{"new1", "d/a"}[r.IntN(2)])})
	case x < 99:
		g.add(vfOp{K: "symlink", P: abs("new1"), P2: "f0"})
	default:
		g.add(vfOp{K: "hardlink", P: abs([]string{"f0", "nx"}[r.IntN(2)]), P2: abs("new0")})
	}
}

func vfGenProgram(rng *rand.Rand, kind, n int) []vfOp {
	g := &vfProgGen{rng: rng, kind: kind}
	g.add(vfOp{K: "init", A: 3})
	for len(g.ops) < n+1 {
		g.step(false)
	}
	return g.ops
}

// nRequests counts the ops that are requests (not "wait" markers).
func vfCountRequests(ops []vfOp) int {
	n := 0
	for _, o := range ops {
		if o.K != "wait" {
			n++
		}
	}
	return n
}

// vfValidSessionProgram: every handle-using op names a slot defined by exactly one earlier
// open/opendir (or a negative, deliberately bogus slot).
func vfValidSessionProgram(sc *vfScenario) bool {
	defined := map[int]int{}
	for _, op := range sc.Ops {
		switch op.K {
		case "open", "opendir":
			defined[op.H]++
			if defined[op.H] > 1 {
				return false
			}
		default:
			if vfOpUsesHandle(op.K) && op.H >= 0 && defined[op.H] == 0 {
				return false
			}
		}
	}
	return true
}

// vfSafeRel makes a generated path relative (to the server's working directory) unless it already lies
// in the private tmpfs area.
func vfSafeRel(p string) string {
	if len(p) > 0 && p[0] == '/' && !strings.HasPrefix(p, "/dev/shm/vf/") {
		q := strings.TrimLeft(p, "/")
		if q == "" {
			return "."
		}
		return q
	}
	return p
}
