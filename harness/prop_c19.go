//go:build verif

package sftp

// C19 — version and extension negotiation is truthful.

import (
	"encoding/binary"
	"fmt"
	"os"
	"sort"
	"strings"
	"syscall"
)

func init() {
	vfRegister(&vfProp{
		id:        "C19",
		classes:   []string{"client", "client", "server-os", "server-rs"},
		gen:       c19Gen,
		exec:      c19Exec,
		enumerate: c19Enumerate,
		maxSteps:  20000,
	})
}

var c19ExtLists = [][][2]string{
	nil,
	{{"statvfs@openssh.com", "2"}},
	{{"posix-rename@openssh.com", "1"}, {"statvfs@openssh.com", "2"}, {"hardlink@openssh.com", "1"}, {"fsync@openssh.com", "1"}},
	{{"a@b", "1"}, {"a@b", "2"}},
	{{"", ""}, {"x", ""}},
	{{"limits@openssh.com", "1"}, {strings.Repeat("n", 300), strings.Repeat("d", 500)}},
}

var c19Supported = []string{"hardlink@openssh.com", "posix-rename@openssh.com", "statvfs@openssh.com"}

func c19Gen(class string, seed uint64, tier string) *vfScenario {
	rng := vfRng(seed, 1)
	sc := &vfScenario{Cfg: map[string]int64{}}
	if class == "client" {
		f := vfFault{K: "hs"}
		switch x := rng.IntN(100); {
		case x < 35:
			f.A = 0
			f.B = int64([]uint32{0, 1, 2, 3, 3, 3, 4, 5, 6, 0xffffffff, uint32(rng.Uint32())}[rng.IntN(11)])
			f.S = fmt.Sprint(rng.IntN(len(c19ExtLists)))
		case x < 44:
			f.A, f.B = 1, int64([]int{101, 1, 3, 0, 255, 102, 201}[rng.IntN(7)])
		case x < 50:
			// a well-formed reply of another type (a status - any code, also OK -, a handle, attributes, ...), request id 0 or not
			f.A, f.B = 7, int64(rng.IntN(c19OtherReplies*2))
		case x < 75:
			f.A, f.B, f.S = 2, int64(rng.IntN(60)), fmt.Sprint(rng.IntN(len(c19ExtLists)))
		case x < 85:
			f.A, f.B = 3, int64(rng.IntN(4))
		case x < 90:
			f.A = 4
		case x < 95:
			f.A, f.B, f.S = 5, int64(rng.IntN(40)), fmt.Sprint(1+rng.IntN(len(c19ExtLists)-1))
		default:
			// the payload ends early but the frame is consistent (length prefix = bytes that follow)
			f.A, f.B, f.S = 6, int64(9+rng.IntN(70)), fmt.Sprint(1+rng.IntN(len(c19ExtLists)-1))
		}
		sc.Faults = []vfFault{f}
		return sc
	}
	if class == "server-rs" {
		sc.Cfg["kind"] = 1
		sc.Cfg["hopt"] = int64([]int{1 | 2 | 4, 0, 4}[rng.IntN(3)])
	}
	sc.Cfg["alloc"] = int64(rng.IntN(2))
	sc.Cfg["window"] = 1
	sc.Cfg["sites"] = int64(1 + rng.IntN(3))
	// the configuration request: a subset in some order, sometimes with an invalid name in it
	perm := rng.Perm(3)
	k := rng.IntN(4)
	var names []string
	for _, i := range perm[:k] {
		names = append(names, c19Supported[i])
	}
	if rng.IntN(3) == 0 {
		bad := []string{"fsync@openssh.com", "", "statvfs@openssh.co", "HARDLINK@openssh.com", "copy-data"}[rng.IntN(5)]
		pos := rng.IntN(len(names) + 1)
		names = append(names[:pos:pos], append([]string{bad}, names[pos:]...)...)
	}
	if rng.IntN(6) == 0 && len(names) > 0 {
		names = append(names, names[0]) // a duplicate
	}
	sc.Ops = []vfOp{{K: "config", S: strings.Join(names, ",")}}
	if class != "server-rs" && rng.IntN(4) == 0 {
		// a read-only server: the modifying extensions are refused, the others - and the answer to unknown names - stay
		sc.Cfg["readonly"] = 1
	}
	if rng.IntN(3) == 0 {
		// the configuration changes again while the session is open (after its handshake): what was advertised
		// to this session must still be served
		var again []string
		for _, i := range rng.Perm(3)[:rng.IntN(3)] {
			again = append(again, c19Supported[i])
		}
		sc.Ops = append(sc.Ops, vfOp{K: "reconfig", S: strings.Join(again, ",")})
	}
	return sc
}

const c19OtherReplies = 15

// c19OtherReply: the k-th well-formed non-VERSION reply (k >= c19OtherReplies: the same with request id 3 instead of 0).
func c19OtherReply(k int) []byte {
	id := uint32(0)
	if k >= c19OtherReplies {
		id, k = 3, k-c19OtherReplies
	}
	switch {
	case k < 10:
		return ssStatus(id, uint32(k), "no").encode()
	case k == 10:
		return (&wResp{Type: wtHandle, ID: id, Handle: "h"}).encode()
	case k == 11:
		return (&wResp{Type: wtAttrs, ID: id}).encode()
	case k == 12:
		return (&wResp{Type: wtName, ID: id}).encode()
	case k == 13:
		return (&wResp{Type: wtData, ID: id}).encode()
	}
	return (&wResp{Type: wtExtReply, ID: id, Raw: make([]byte, 8)}).encode()
}

func c19Enumerate(tier string, base uint64, emit func(*vfScenario)) {
	n := 0
	mk := func(f vfFault) {
		n++
		f.K = "hs"
		emit(&vfScenario{Prop: "C19", Class: "enum-client", Seed: vfMix(vfMix(base, 0xc19), uint64(n)), Cfg: map[string]int64{}, Faults: []vfFault{f}})
	}
	// a VERSION 3 reply with each extension list, truncated at every byte
	for li := range c19ExtLists {
		full := len(c19Version(3, c19ExtLists[li]))
		step := 1
		if full > 120 {
			step = 13
		}
		for cut := 0; cut < full; cut += step {
			mk(vfFault{A: 2, B: int64(cut), S: fmt.Sprint(li)})
		}
		// ... and with a consistent length prefix, every byte (extension lists of ordinary length)
		if full <= 400 {
			for cut := 9; cut < full; cut++ {
				mk(vfFault{A: 6, B: int64(cut), S: fmt.Sprint(li)})
			}
		}
		for _, v := range []uint32{0, 1, 2, 3, 4, 5, 0x80000003, 0xffffffff} {
			mk(vfFault{A: 0, B: int64(v), S: fmt.Sprint(li)})
		}
	}
	for t := 0; t < 256; t += 3 {
		mk(vfFault{A: 1, B: int64(t)})
	}
	for k := 0; k < 2*c19OtherReplies; k++ {
		mk(vfFault{A: 7, B: int64(k)})
	}
	for i := 0; i < 4; i++ {
		mk(vfFault{A: 3, B: int64(i)})
	}
	mk(vfFault{A: 4})
	// every subset and order of the supported extensions, for both servers
	var orders [][]string
	var rec func(cur []string, used int)
	rec = func(cur []string, used int) {
		orders = append(orders, append([]string(nil), cur...))
		for i, e := range c19Supported {
			if used&(1<<i) == 0 {
				rec(append(cur, e), used|1<<i)
			}
		}
	}
	rec(nil, 0)
	for _, o := range orders {
		for kind := 0; kind < 2; kind++ {
			n++
			emit(&vfScenario{Prop: "C19", Class: []string{"server-os", "server-rs"}[kind], Seed: vfMix(vfMix(base, 0xc19), uint64(n)),
				Cfg: map[string]int64{"kind": int64(kind), "window": 1, "sites": 3, "hopt": 7}, Ops: []vfOp{{K: "config", S: strings.Join(o, ",")}}})
		}
	}
}

func c19Version(v uint32, exts [][2]string) []byte {
	return (&wResp{Type: wtVersion, Version: v, Exts: exts}).encode()
}

func c19Exec(r *vfRun) {
	if strings.HasPrefix(r.sc.Class, "server") || strings.HasPrefix(r.sc.Class, "enum-server") {
		c19Server(r)
		return
	}
	c19Client(r)
}

// c19Client: NewClientPipe against a scripted handshake reply.
func c19Client(r *vfRun) {
	sc, sim := r.sc, r.sim
	if len(sc.Faults) == 0 {
		return
	}
	f := sc.Faults[0]
	srv := vfNewScriptServer(sim)
	var li int
	fmt.Sscanf(f.S, "%d", &li)
	exts := c19ExtLists[li%len(c19ExtLists)]
	wellFormedV3 := false
	closeAfter := false
	var reply []byte
	switch f.A {
	case 0:
		reply = c19Version(uint32(f.B), exts)
		wellFormedV3 = uint32(f.B) == 3
	case 1:
		reply = c19Version(3, exts)
		reply[4] = byte(f.B)
		wellFormedV3 = byte(f.B) == wtVersion
	case 2:
		full := c19Version(3, exts)
		if int(f.B) < len(full) {
			reply = full[:f.B]
			closeAfter = true
		} else {
			reply = full
			wellFormedV3 = true
		}
	case 3:
		reply = c19Version(3, exts)
		binary.BigEndian.PutUint32(reply, []uint32{0, 256*1024 + 1, 0x7fffffff, 0xffffffff}[f.B%4])
	case 4:
		closeAfter = true
	case 7:
		reply = c19OtherReply(int(f.B))
	case 6:
		full := c19Version(3, exts)
		cut := int(f.B)
		if cut < 9 {
			cut = 9
		}
		if cut >= len(full) {
			reply = full
			wellFormedV3 = true
			break
		}
		reply = append([]byte(nil), full[:cut]...)
		binary.BigEndian.PutUint32(reply, uint32(cut-4))
		// well-formed only if the cut falls between two pairs: then exactly the pairs before it were advertised
		off := 9
		for k, e := range exts {
			if off == cut {
				exts = exts[:k]
				wellFormedV3 = true
				break
			}
			off += 4 + len(e[0]) + 4 + len(e[1])
		}
	case 5:
		// an extension pair whose first string length runs past the packet
		reply = c19Version(3, exts)
		if len(reply) >= 13 {
			binary.BigEndian.PutUint32(reply[9:], uint32(len(reply))+uint32(f.B))
		}
	}
	srv.override = func(rq *ssReq) []byte {
		if rq.q.Type == wtInit {
			sim.count("fault.peer.handshake")
			if len(reply) == 0 {
				return []byte{}
			}
			return reply
		}
		return nil
	}
	srv.onAnswer = func(rq *ssReq, p *wResp) {
		if rq.q.Type == wtInit && closeAfter {
			srv.s2c.closeWriter()
		}
	}
	c, err := vfStartClient(sim, srv.c2s, srv.s2c)
	what := fmt.Sprintf("handshake reply % x (mutation %+v)", vfHead(reply), f)
	if sim.failed() {
		return
	}
	if sim.steps >= sim.maxSteps || (c == nil && err != nil && err.Error() == "vf: handshake did not finish") {
		r.fail("C19/handshake-hangs", "hang", "NewClientPipe did not return for %s; blocked: %v", what, vfBubbleGoroutines())
		return
	}
	if wellFormedV3 {
		if err != nil || c == nil {
			r.fail("C19/valid-handshake-rejected", "reject", "a well-formed VERSION 3 reply was rejected: %v; %s", err, what)
			return
		}
		// extensions: exactly the pairs sent
		want := map[string]string{}
		for _, e := range exts {
			want[e[0]] = e[1]
		}
		for name, data := range want {
			if d, ok := c.HasExtension(name); !ok || d != data {
				r.fail("C19/extension-not-reported", "hasext", "server advertised %q=%q, HasExtension says %q, %v", name, data, d, ok)
				return
			}
		}
		for _, name := range append([]string{"fsync@openssh.com", "statvfs@openssh.com", "zz"}, c19Supported...) {
			if _, sent := want[name]; !sent {
				if d, ok := c.HasExtension(name); ok {
					r.fail("C19/extension-invented", "hasext", "HasExtension(%q) = %q, true but the server did not advertise it", name, d)
					return
				}
			}
		}
		if len(c.ext) != len(want) {
			r.fail("C19/extension-invented", "count", "the client recorded %d extensions, the server advertised %d distinct names", len(c.ext), len(want))
			return
		}
		sim.count("probe.session_established")
		r.res.NonTrivial = true
		return
	}
	if err == nil || c != nil {
		r.fail("C19/bad-handshake-accepted", fmt.Sprintf("kind%d", f.A), "a session was established although the peer did not answer with a well-formed VERSION 3: %s", what)
		return
	}
	sim.run(nil)
	if srv.c2s.closes == 0 {
		r.fail("C19/failed-construction-leaves-writer-open", "writer", "NewClientPipe failed (%v) but did not close the writer it was given; %s", err, what)
		return
	}
	if left := vfBubbleGoroutines(); len(left) > 0 {
		r.fail("C19/failed-construction-leaks-goroutine", c04LeakSig(left), "NewClientPipe failed (%v) but goroutines are left: %v", err, left)
		return
	}
	sim.count("probe.bad_handshake_refused")
	r.res.NonTrivial = true
}

// c19Server: the servers' side of the negotiation under a configuration request.
func c19Server(r *vfRun) {
	sc, sim := r.sc, r.sim
	var names []string
	if len(sc.Ops) > 0 && sc.Ops[0].S != "" {
		names = strings.Split(sc.Ops[0].S, ",")
	}
	if len(sc.Ops) > 0 && sc.Ops[0].S == "" {
		names = []string{}
	}
	before := append([]sshExtensionPair(nil), sftpExtensions...)
	defer func() { sftpExtensions = supportedSFTPExtensions }()
	valid := true
	for _, n := range names {
		ok := false
		for _, s := range c19Supported {
			if s == n {
				ok = true
			}
		}
		valid = valid && ok
	}
	err := SetSFTPExtensions(names...)
	if valid != (err == nil) {
		r.fail("C19/config-validation", "validation", "SetSFTPExtensions(%q) = %v, but the request is valid: %v", names, err, valid)
		return
	}
	configured := map[string]string{}
	if err != nil {
		// an invalid request changes nothing
		if fmt.Sprint(before) != fmt.Sprint(sftpExtensions) {
			r.fail("C19/rejected-config-changed-state", "rejected", "SetSFTPExtensions(%q) failed but the advertised set changed from %v to %v", names, before, sftpExtensions)
			return
		}
		for _, e := range before {
			configured[e.Name] = e.Data
		}
	} else {
		data := map[string]string{"hardlink@openssh.com": "1", "posix-rename@openssh.com": "1", "statvfs@openssh.com": "2"}
		for _, n := range names {
			configured[n] = data[n]
		}
	}
	kind := int(sc.cfg("kind", 0))
	prog := []vfOp{{K: "init", A: 3},
		{K: "statvfs", P: "."}, {K: "stat", P: "f0"},
		{K: "posixrename", P: "f1", P2: "new1"}, {K: "stat", P: "new1"},
		{K: "hardlink", P: "f0", P2: "new0"}, {K: "stat", P: "new0"},
		{K: "extunknown", S: "fsync@openssh.com", P: "1"}, {K: "stat", P: "f0"},
		{K: "extunknown", S: "nosuch@example.com", P: "x"}, {K: "extunknown", S: "", P: "x"}, {K: "extunknown", S: "statvfs@openssh.com ", P: "."}, {K: "stat", P: "f0"},
		// the tail is sent without waiting for replies: an extended request still sees the effect of the command before it
		{K: "mkdir", P: "nd"}, {K: "statvfs", P: "nd"}, {K: "stat", P: "nd"}}
	const tail = 13
	if kind == 1 {
		for i := range prog {
			if prog[i].P != "" && prog[i].K != "extunknown" {
				prog[i].P = "/" + prog[i].P
			}
			if prog[i].P2 != "" {
				prog[i].P2 = "/" + prog[i].P2
			}
		}
	}
	s := vfStartSession(r, prog)
	defer s.cleanup()
	if len(sc.Ops) > 1 && sc.Ops[1].K == "reconfig" {
		var again []string
		if sc.Ops[1].S != "" {
			again = strings.Split(sc.Ops[1].S, ",")
		}
		s.wc.onSend = func(i int, q *wReq) {
			if i == 1 { // the first request after the handshake (the window is 1: VERSION has been received)
				SetSFTPExtensions(again...)
				sim.count("fault.reconfigured_during_session")
			}
		}
	}
	{
		prev := s.wc.onSend
		s.wc.onSend = func(i int, q *wReq) {
			if i == tail {
				s.wc.window = 0 // from here on everything goes out at once
			}
			if prev != nil {
				prev(i, q)
			}
		}
	}
	sim.run(nil)
	if sim.failed() {
		return
	}
	c02CheckReplies(r, s.wc, true)
	if sim.failed() {
		sim.viol.Class = "C19/" + sim.viol.Class[4:]
		return
	}
	rep := s.wc.replies
	// the VERSION lists exactly the configured set
	got := map[string]string{}
	for _, e := range rep[0].Exts {
		got[e[0]] = e[1]
	}
	if rep[0].Type != wtVersion || rep[0].Version != 3 || fmt.Sprint(c19Sorted(got)) != fmt.Sprint(c19Sorted(configured)) {
		r.fail("C19/advertised-set-differs", "version", "configured %v (request %q, error %v) but the server's VERSION lists %v", c19Sorted(configured), names, err, rep[0].Exts)
		return
	}
	unsupported := func(p *wResp) bool { return p.Type == wtStatus && p.Code == wsUnsupported }
	// every advertised extension is served by the os-backed server
	if kind == 0 {
		if _, adv := configured["statvfs@openssh.com"]; adv {
			var st syscall.Statfs_t
			syscall.Statfs(s.root, &st)
			p := rep[1]
			if p.Type != wtExtReply || len(p.Raw) != 88 || binary.BigEndian.Uint64(p.Raw[0:]) != uint64(st.Bsize) || binary.BigEndian.Uint64(p.Raw[16:]) != st.Blocks || binary.BigEndian.Uint64(p.Raw[80:]) != uint64(st.Namelen) {
				r.fail("C19/advertised-extension-not-served", "statvfs", "statvfs@openssh.com is advertised but the request was answered %v (% x); statfs says bsize=%d blocks=%d namelen=%d", p, p.Raw, st.Bsize, st.Blocks, st.Namelen)
				return
			}
		}
		ro := sc.cfg("readonly", 0) != 0
		if ro {
			// posix-rename and hardlink modify: a read-only server answers permission denied, advertised or not, and does nothing
			_, e1 := os.Lstat(s.root + "/new1")
			_, e2 := os.Lstat(s.root + "/new0")
			for _, i := range []int{3, 5} {
				_, adv := configured[map[int]string{3: "posix-rename@openssh.com", 5: "hardlink@openssh.com"}[i]]
				if rep[i].Type != wtStatus || (adv && rep[i].Code != 3) || (!adv && rep[i].Code != 3 && rep[i].Code != wsUnsupported) || e1 == nil || e2 == nil {
					r.fail("C19/read-only-extension", "readonly", "read-only server: request %v was answered %v (new1: %v, new0: %v), want permission denied and no effect", s.wc.reqs[i], rep[i], e1, e2)
					return
				}
			}
			sim.count("probe.read_only_server")
		}
		if _, adv := configured["posix-rename@openssh.com"]; adv && !ro {
			_, e1 := os.Lstat(s.root + "/new1")
			_, e2 := os.Lstat(s.root + "/f1")
			if rep[3].Type != wtStatus || rep[3].Code != wsOK || e1 != nil || e2 == nil {
				r.fail("C19/advertised-extension-not-served", "posix-rename", "posix-rename@openssh.com is advertised but the request was answered %v (new1: %v, f1: %v)", rep[3], e1, e2)
				return
			}
		}
		if _, adv := configured["hardlink@openssh.com"]; adv && !ro {
			a, e1 := os.Stat(s.root + "/new0")
			b, _ := os.Stat(s.root + "/f0")
			if rep[5].Type != wtStatus || rep[5].Code != wsOK || e1 != nil || !os.SameFile(a, b) {
				r.fail("C19/advertised-extension-not-served", "hardlink", "hardlink@openssh.com is advertised but the request was answered %v (new0: %v)", rep[5], e1)
				return
			}
		}
		sim.count("probe.advertised_extensions_served")
	}
	if kind == 0 && sc.cfg("readonly", 0) == 0 {
		if _, adv := configured["statvfs@openssh.com"]; adv {
			if rep[tail].Type != wtStatus || rep[tail].Code != wsOK || rep[tail+1].Type != wtExtReply || rep[tail+2].Type != wtAttrs {
				r.fail("C19/advertised-extension-not-served", "statvfs-pipelined", "MKDIR nd, statvfs nd, STAT nd sent back-to-back were answered %v, %v, %v: the extended request did not see the directory made by the command before it", rep[tail], rep[tail+1], rep[tail+2])
				return
			}
		}
	}
	// any other extended request: unsupported, and the session goes on
	for _, i := range []int{7, 9, 10, 11} {
		if !unsupported(rep[i]) {
			r.fail("C19/unknown-extension-not-refused", "unknown", "extended request %v was answered %v, want SSH_FX_OP_UNSUPPORTED", s.wc.reqs[i], rep[i])
			return
		}
	}
	for _, i := range []int{8, 12} {
		if rep[i].Type != wtAttrs {
			r.fail("C19/session-ended-after-unknown-extension", "continue", "after an unknown extended request the next STAT was answered %v", rep[i])
			return
		}
	}
	s.finish()
	r.res.NonTrivial = true
}

func c19Sorted(m map[string]string) []string {
	var out []string
	for k, v := range m {
		out = append(out, k+"="+v)
	}
	sort.Strings(out)
	return out
}
