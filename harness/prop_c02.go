//go:build verif

package sftp

// C02 — servers answer every request once, with its id, in arrival order.

import (
	"fmt"
)

func init() {
	vfRegister(&vfProp{
		id:       "C02",
		classes:  []string{"os", "os-alloc", "rs", "rs-alloc", "rs-park", "os-halfclose", "rs-halfclose", "os-stall", "rs-stall", "big", "inmem"},
		gen:      c02Gen,
		exec:     c02Exec,
		maxSteps: 30000,
	})
}

func c02Gen(class string, seed uint64, tier string) *vfScenario {
	rng := vfRng(seed, 1)
	sc := &vfScenario{Cfg: map[string]int64{}}
	switch class {
	case "os", "os-halfclose":
		sc.Cfg["kind"] = 0
	case "os-alloc":
		sc.Cfg["kind"], sc.Cfg["alloc"] = 0, 1
	case "rs", "rs-halfclose":
		sc.Cfg["kind"] = 1
	case "rs-alloc":
		sc.Cfg["kind"], sc.Cfg["alloc"] = 1, 1
	case "os-stall":
		sc.Cfg["kind"], sc.Cfg["stall"] = 0, 1
	case "rs-stall":
		sc.Cfg["kind"], sc.Cfg["stall"] = 1, 1
	case "rs-park":
		sc.Cfg["kind"], sc.Cfg["parkdata"] = 1, 1
		sc.Cfg["alloc"] = int64(rng.IntN(2))
	case "inmem":
		// the package's own in-memory example backend (the property covers the handler-based server with any handlers)
		sc.Cfg["kind"] = 3
		sc.Cfg["alloc"] = int64(rng.IntN(2))
		sc.Cfg["halfclose"] = int64(rng.IntN(4) / 3)
	case "big":
		// servers configured with a large data-packet size, a file large enough, and reads around the
		// size at which a reply frame exceeds what the package itself would accept on receipt (256 KiB)
		sc.Cfg["kind"] = int64(rng.IntN(2))
		sc.Cfg["alloc"] = int64(rng.IntN(2))
		sc.Cfg["maxtx"] = int64([]int{262134, 262135, 262136, 262144, 270000, 300000, 1 << 20}[rng.IntN(7)])
		sc.Cfg["bigfile"] = int64(262100 + rng.IntN(40000))
	}
	if class == "os-halfclose" || class == "rs-halfclose" {
		sc.Cfg["halfclose"] = 1
	}
	if sc.Cfg["stall"] != 0 {
		// back-pressure: some reply writes stall until the scheduler lets them through
		sc.Cfg["halfclose"] = int64(rng.IntN(2))
		sc.Cfg["alloc"] = int64(rng.IntN(2))
		sc.Faults = []vfFault{{K: "stall", At: int64(rng.IntN(12)), A: int64(1 + rng.IntN(4))}}
	}
	sc.Cfg["sites"] = int64(1 + rng.IntN(3)) // 1, 2 or 3: never without any site
	if sc.Cfg["kind"] == 1 {
		sc.Cfg["hopt"] = int64([]int{0, 1, 1 | 2 | 4, 1 | 128, 1 | 2 | 4 | 128, 8, 16, 32, 64}[rng.IntN(9)])
	}
	n := 1 + rng.IntN(40)
	if rng.IntN(4) == 0 {
		n = 1 + rng.IntN(6)
	}
	if sc.Cfg["stall"] != 0 {
		// While the controller is held in a stalled write, its bounded queues (capacity 8) must not fill up:
		// which of its ready select cases it takes when it resumes is Go's coin, and that only stays
		// unobservable as long as nobody upstream is blocked on those queues.
		n = 1 + rng.IntN(6)
	}
	pk := int(sc.Cfg["kind"])
	if pk == 3 {
		pk = 1 // same programs as for the simulated backend (absolute virtual paths)
	}
	sc.Ops = vfGenProgram(rng, pk, n)
	if class == "inmem" && rng.IntN(2) == 0 {
		// a few more of the extended requests, back to back
		for i, k := 0, 1+rng.IntN(3); i < k; i++ {
			sc.Ops = append(sc.Ops, vfOp{K: "statvfs", P: []string{"/", "/f0", "/nx", "/d"}[rng.IntN(4)]})
		}
	}
	if class == "big" {
		name := "/big"
		if sc.Cfg["kind"] == 0 {
			name = "big"
		}
		sc.Ops = vfGenProgram(rng, int(sc.Cfg["kind"]), rng.IntN(6))
		big := []vfOp{{K: "open", P: name, A: 1 | 2, H: 900}}
		if rng.IntN(2) == 0 {
			// a WRITE whose frame is as long as a frame may be (262144 bytes), or a few bytes shorter or longer
			big = append(big, vfOp{K: "write", H: 900, Off: int64(rng.IntN(3)), N: 262144 - 22 - rng.IntN(6) + rng.IntN(3), B: int64(rng.IntN(100))})
		}
		for i, k := 0, 1+rng.IntN(4); i < k; i++ {
			big = append(big, vfOp{K: "read", H: 900, Off: int64(rng.IntN(3)), N: 262130 + rng.IntN(16)})
			if rng.IntN(3) == 0 {
				big[len(big)-1].N = 200000 + rng.IntN(900000)
			}
		}
		at := rng.IntN(len(sc.Ops) + 1)
		sc.Ops = append(append(append([]vfOp{}, sc.Ops[:at]...), big...), sc.Ops[at:]...)
	}
	if rng.IntN(5) == 0 {
		sc.Cfg["window"] = int64(1 + rng.IntN(9))
	}
	if rng.IntN(5) == 0 {
		// a client that repeats request ids: the servers' own order ids, not the client's, decide what is answered when
		sc.Cfg["dupids"] = int64(2 + rng.IntN(3))
	}
	return sc
}

// c02CheckReplies is the oracle over the parsed reply stream.
func c02CheckReplies(r *vfRun, wc *vfWireClient, complete bool) {
	wc.mu.Lock()
	defer wc.mu.Unlock()
	if wc.parseErr != nil {
		r.fail("C02/reply-stream-malformed", "framing", "the server->client stream is not a sequence of well-formed responses: %v", wc.parseErr)
		return
	}
	if len(wc.replies) > len(wc.reqs) {
		r.fail("C02/extra-reply", "count", "%d replies for %d requests", len(wc.replies), len(wc.reqs))
		return
	}
	for i, p := range wc.replies {
		q := wc.reqs[i]
		if !wLegalReply(q.Type, p.Type) {
			r.fail("C02/illegal-reply-type", fmt.Sprintf("%s->%s", wtStr(q.Type), wtStr(p.Type)), "reply %d to %v is %v", i, q, p)
			return
		}
		if q.Type != wtInit && p.ID != q.ID {
			r.fail("C02/wrong-id-or-order", "id", "reply %d carries id %d but request %d was %v (replies out of order, duplicated or misattributed)", i, p.ID, i, q)
			return
		}
	}
	// a frame longer than the servers accept (256 KiB) is not a request they receive: the session ends there
	expect := len(wc.reqs)
	for i, q := range wc.reqs {
		if len(q.encode())-4 > 256*1024 {
			expect = i
			break
		}
	}
	if len(wc.replies) > expect {
		r.fail("C02/extra-reply", "overlong", "request %d is a frame of more than 256 KiB, yet %d replies were emitted", expect, len(wc.replies))
		return
	}
	if complete && len(wc.replies) != expect {
		missing := wc.reqs[len(wc.replies)]
		r.fail("C02/missing-reply", "count", "%d requests were delivered but only %d replies were emitted when the server went idle; first unanswered: %v", len(wc.reqs), len(wc.replies), missing)
	}
}

func c02Exec(r *vfRun) {
	s := vfStartSession(r, r.sc.Ops)
	defer s.cleanup()
	for _, f := range r.sc.Faults {
		if f.K == "stall" {
			s.srv.s2c.stallAt, s.srv.s2c.stallLen = int(f.At), int(f.A)
		}
	}
	half := r.sc.cfg("halfclose", 0) != 0
	s.sim.run(nil)
	if s.sim.failed() {
		return
	}
	if s.sim.steps >= s.sim.maxSteps {
		r.fail("C02/no-progress", "steps", "session did not finish within %d steps", s.sim.maxSteps)
		return
	}
	if !half {
		// link still open: every request must have been answered by now (bounded liveness)
		c02CheckReplies(r, s.wc, true)
		if s.sim.failed() {
			return
		}
	}
	s.finish()
	if done, _ := s.srv.served(); !done {
		r.fail("C02/serve-did-not-return", "serve", "Serve has not returned after the client closed the link")
		return
	}
	c02CheckReplies(r, s.wc, true)
	n := len(s.wc.reqs)
	r.res.NonTrivial = n >= 3 && (s.sim.stats["probe.overtake"] > 0 || n >= 5)
}
