//go:build verif

package sftp

// Simulated backing store for RequestServer: Handlers whose every call is recorded, may
// park (so that the scheduler owns the completion order) and may fail as planned.

import (
	"errors"
	"fmt"
	"io"
	"os"
	"path"
	"sort"
	"strings"
	"sync"
	"syscall"
	"time"
)

type sfNode struct {
	kind   byte // 'f', 'd', 'l'
	data   []byte
	target string
	mode   os.FileMode
	mtime  int64
	uid    uint32
	gid    uint32
	shape  byte           // what its FileInfo looks like: 0 with Uid/Gid, 1 a plain os.FileInfo, 2 with Uid/Gid and extended data, 3 with Uid/Gid and a Sys() of another owner
	ext    []StatExtended // for shape 2
}

type sfCall struct {
	Seq      int
	Method   string // handler method: Fileread, Filewrite, OpenFile, Filecmd, PosixRename, StatVFS, Filelist, Lstat, RealPath, Readlink, ReadAt, WriteAt, ListAt, Close, TransferError
	ReqMeth  string // Request.Method
	Filepath string
	Target   string
	Flags    uint32
	Attrs    []byte
	Obj      int
	Off      int64
	N        int
	Err      string
	Parsed   string // Setstat: what Request.AttrFlags() / Request.Attributes() gave the handler (flagged fields only)
}

// sfParsed renders the flagged attributes the way both sides of the comparison do.
func sfParsed(size, perm, ids, times bool, sz uint64, mode, uid, gid, atime, mtime uint32) string {
	out := ""
	if size {
		out += fmt.Sprintf(" size=%d", sz)
	}
	if ids {
		out += fmt.Sprintf(" owner=%d:%d", uid, gid)
	}
	if perm {
		out += fmt.Sprintf(" mode=%o", mode)
	}
	if times {
		out += fmt.Sprintf(" times=%d,%d", atime, mtime)
	}
	return out
}

type sfObj struct {
	fs       *sfs
	id       int
	path     string
	kind     string // "r", "w", "rw", "ls"
	names    []os.FileInfo
	inflight int
	maxInfl  int
	closes   int
	terrs    int
	terrArg  error
	afterCls int // data calls that started after Close
	duringCl int // in-flight data calls at the moment of Close
	ctx      interface {
		Done() <-chan struct{}
		Err() error
	}
	ctxDone bool
}

type sfs struct {
	sim   *vfSim
	mu    sync.Mutex
	nodes map[string]*sfNode
	calls []sfCall
	objs  []*sfObj

	parkData bool // data calls (ReadAt/WriteAt/ListAt) park
	parkCmd  bool // open/cmd/list calls park

	// planned faults: per method, ordinal -> error
	faults map[string]map[int]error
	counts map[string]int

	listStyle  int  // 0: EOF with last entries; 1: EOF on following call; 2: short batches (tape); 3: exact fill then EOF
	eofStyle   int  // ReadAt at end: 0: (n, io.EOF); 1: (n, nil) when n>0, then (0, EOF)
	parkAfter  bool // data calls park a second time after taking effect (a backend that is slow to return)
	ignoreCtx  bool // handlers do not look at their request's context
	partialErr bool // a failing ReadAt/WriteAt has moved some bytes before it fails: (n>0, err), as io.ReaderAt/io.WriterAt allow
	shortRead  bool
	withClose  bool // returned objects implement io.Closer
	withTErr   bool // returned objects implement TransferError

	realPathFn func(string) (string, error)
	dotEntries bool // directory listings start with "." and ".."
}

func newSfs(sim *vfSim) *sfs {
	fs := &sfs{sim: sim, nodes: map[string]*sfNode{}, faults: map[string]map[int]error{}, counts: map[string]int{}, withClose: true, withTErr: true}
	fs.nodes["/"] = &sfNode{kind: 'd', mode: os.ModeDir | 0o755, mtime: 946684800}
	return fs
}

func (fs *sfs) addFile(p string, data []byte) {
	fs.nodes[p] = &sfNode{kind: 'f', data: append([]byte(nil), data...), mode: 0o644, mtime: 946684800 + int64(len(p))}
}
func (fs *sfs) addDir(p string) {
	fs.nodes[p] = &sfNode{kind: 'd', mode: os.ModeDir | 0o755, mtime: 946684800}
}

func (fs *sfs) planFault(method string, ordinal int, err error) {
	if fs.faults[method] == nil {
		fs.faults[method] = map[int]error{}
	}
	fs.faults[method][ordinal] = err
}

// record notes a call and returns the planned error for it, if any.
func (fs *sfs) record(c sfCall) error {
	fs.mu.Lock()
	defer fs.mu.Unlock()
	n := fs.counts[c.Method]
	fs.counts[c.Method] = n + 1
	var err error
	if m := fs.faults[c.Method]; m != nil {
		err = m[n]
	}
	c.Seq = len(fs.calls)
	if err != nil {
		c.Err = err.Error()
		fs.sim.stats["fault.backend.err"]++
	}
	fs.calls = append(fs.calls, c)
	return err
}

// recordReq records a handler call and lets it fail as planned. Like a backend that honours the context it is given, the
// call also fails when the request's context is already dead: the package documents that context as cancelled when the
// handle is closed or the connection goes away - not while requests received earlier are still being served.
func (fs *sfs) recordReq(method string, r *Request) error {
	if err := fs.record(fs.reqCall(method, r)); err != nil {
		return err
	}
	if !fs.ignoreCtx {
		if err := r.Context().Err(); err != nil {
			fs.sim.count("probe.handler_saw_dead_context")
			return err
		}
	}
	return nil
}

func (fs *sfs) reqCall(method string, r *Request) sfCall {
	c := sfCall{Method: method, ReqMeth: r.Method, Filepath: r.Filepath, Target: r.Target, Flags: r.Flags, Attrs: append([]byte(nil), r.Attrs...)}
	if r.Method == "Setstat" {
		// like a real handler, look at the attributes through the accessors
		fl := r.AttrFlags()
		if a := r.Attributes(); a != nil {
			c.Parsed = sfParsed(fl.Size, fl.Permissions, fl.UidGid, fl.Acmodtime, a.Size, a.Mode, a.UID, a.GID, a.Atime, a.Mtime)
		} else {
			c.Parsed = "<nil>"
		}
	} else if method == "OpenFile" || method == "Fileread" || method == "Filewrite" {
		if len(r.Attrs) == 0 {
			r.Attributes() // (a handler that looks at the attributes of an open as well; value not compared: known finding)
		}
	}
	return c
}

func (fs *sfs) gate(cmd bool, key string) {
	if (cmd && fs.parkCmd) || (!cmd && fs.parkData) {
		fs.sim.park("b:"+key, nil)
	}
}

// gateAfter parks a data call after it has taken effect, before it returns to the package (parkAfter runs only).
func (fs *sfs) gateAfter(key string) {
	if fs.parkData && fs.parkAfter {
		fs.sim.park("b:"+key, nil)
	}
}

func (fs *sfs) newObj(kind, p string, r *Request) *sfObj {
	fs.mu.Lock()
	defer fs.mu.Unlock()
	o := &sfObj{fs: fs, id: len(fs.objs), path: p, kind: kind}
	if r != nil {
		o.ctx = r.Context()
	}
	fs.objs = append(fs.objs, o)
	return o
}

// wrap picks the concrete type according to the optional interfaces wanted.
func (fs *sfs) wrap(o *sfObj) any {
	switch {
	case fs.withClose && fs.withTErr:
		return &sfObjFull{o}
	case fs.withClose:
		return &sfObjCloser{o}
	default:
		return &sfObjPlain{o}
	}
}

type sfObjPlain struct{ o *sfObj }
type sfObjCloser struct{ o *sfObj }
type sfObjFull struct{ o *sfObj }

func (x *sfObjPlain) ReadAt(b []byte, off int64) (int, error)  { return x.o.readAt(b, off) }
func (x *sfObjPlain) WriteAt(b []byte, off int64) (int, error) { return x.o.writeAt(b, off) }
func (x *sfObjPlain) ListAt(b []os.FileInfo, off int64) (int, error) {
	return x.o.listAt(b, off)
}
func (x *sfObjCloser) ReadAt(b []byte, off int64) (int, error)  { return x.o.readAt(b, off) }
func (x *sfObjCloser) WriteAt(b []byte, off int64) (int, error) { return x.o.writeAt(b, off) }
func (x *sfObjCloser) ListAt(b []os.FileInfo, off int64) (int, error) {
	return x.o.listAt(b, off)
}
func (x *sfObjCloser) Close() error                           { return x.o.close() }
func (x *sfObjFull) ReadAt(b []byte, off int64) (int, error)  { return x.o.readAt(b, off) }
func (x *sfObjFull) WriteAt(b []byte, off int64) (int, error) { return x.o.writeAt(b, off) }
func (x *sfObjFull) ListAt(b []os.FileInfo, off int64) (int, error) {
	return x.o.listAt(b, off)
}
func (x *sfObjFull) Close() error            { return x.o.close() }
func (x *sfObjFull) TransferError(err error) { x.o.transferError(err) }

func (o *sfObj) enter() {
	o.fs.mu.Lock()
	if o.closes > 0 {
		o.afterCls++
	}
	o.inflight++
	if o.inflight > o.maxInfl {
		o.maxInfl = o.inflight
	}
	o.fs.mu.Unlock()
}
func (o *sfObj) leave() {
	o.fs.mu.Lock()
	o.inflight--
	o.fs.mu.Unlock()
}

// ctxErr: a reader or writer that honours the context of the request that opened it.
func (o *sfObj) ctxErr() error {
	if o.ctx == nil || o.fs.ignoreCtx {
		return nil
	}
	if err := o.ctx.Err(); err != nil {
		o.fs.sim.count("probe.object_saw_dead_context")
		return err
	}
	return nil
}

func (o *sfObj) readAt(b []byte, off int64) (int, error) {
	o.enter()
	defer o.leave()
	n, err := o.readAt1(b, off)
	// (parkAfter) the call has taken effect but is slow to return: the scheduler decides when the package goes on
	o.fs.gateAfter(fmt.Sprintf("readat:%03d:%08d:%06d:ret", o.id, off, len(b)))
	return n, err
}

func (o *sfObj) readAt1(b []byte, off int64) (int, error) {
	fs := o.fs
	fs.gate(false, fmt.Sprintf("readat:%03d:%08d:%06d", o.id, off, len(b)))
	if err := o.ctxErr(); err != nil {
		fs.record(sfCall{Method: "ReadAt", Obj: o.id, Off: off, N: len(b), Filepath: o.path})
		return 0, err
	}
	if err := fs.record(sfCall{Method: "ReadAt", Obj: o.id, Off: off, N: len(b), Filepath: o.path}); err != nil {
		if fs.partialErr && len(b) > 1 {
			fs.mu.Lock()
			defer fs.mu.Unlock()
			if nd := fs.nodes[o.path]; nd != nil && nd.kind == 'f' && off >= 0 && off < int64(len(nd.data)) {
				fs.sim.stats["fault.backend.partial-read"]++
				return copy(b[:1+(len(b)-1)/2], nd.data[off:]), err
			}
		}
		return 0, err
	}
	fs.mu.Lock()
	defer fs.mu.Unlock()
	nd := fs.nodes[o.path]
	if nd == nil || nd.kind != 'f' {
		return 0, os.ErrNotExist
	}
	if off < 0 {
		return 0, &os.PathError{Op: "read", Path: o.path, Err: syscall.EINVAL}
	}
	if off >= int64(len(nd.data)) {
		return 0, io.EOF
	}
	n := copy(b, nd.data[off:])
	if n < len(b) {
		if fs.eofStyle == 1 {
			return n, nil
		}
		return n, io.EOF
	}
	if off+int64(n) == int64(len(nd.data)) && fs.eofStyle == 2 {
		// legal: full read that ends exactly at EOF may also report EOF
		return n, io.EOF
	}
	return n, nil
}

func (o *sfObj) writeAt(b []byte, off int64) (int, error) {
	o.enter()
	defer o.leave()
	n, err := o.writeAt1(b, off)
	o.fs.gateAfter(fmt.Sprintf("writeat:%03d:%08d:%06d:ret", o.id, off, len(b)))
	return n, err
}

func (o *sfObj) writeAt1(b []byte, off int64) (int, error) {
	fs := o.fs
	fs.gate(false, fmt.Sprintf("writeat:%03d:%08d:%06d", o.id, off, len(b)))
	if err := o.ctxErr(); err != nil {
		fs.record(sfCall{Method: "WriteAt", Obj: o.id, Off: off, N: len(b), Filepath: o.path})
		return 0, err
	}
	if err := fs.record(sfCall{Method: "WriteAt", Obj: o.id, Off: off, N: len(b), Filepath: o.path}); err != nil {
		return 0, err
	}
	fs.mu.Lock()
	defer fs.mu.Unlock()
	nd := fs.nodes[o.path]
	if nd == nil || nd.kind != 'f' {
		return 0, os.ErrNotExist
	}
	end := off + int64(len(b))
	if off < 0 || end > 1<<22 {
		return 0, &os.PathError{Op: "write", Path: o.path, Err: syscall.EFBIG} // the simulated store is small
	}
	if len(b) > 0 && end > int64(len(nd.data)) {
		nd.data = append(nd.data, make([]byte, end-int64(len(nd.data)))...)
	}
	if len(b) > 0 {
		copy(nd.data[off:], b)
	}
	return len(b), nil
}

func (o *sfObj) listAt(b []os.FileInfo, off int64) (int, error) {
	fs := o.fs
	o.enter()
	defer o.leave()
	fs.gate(false, fmt.Sprintf("listat:%03d:%06d", o.id, off))
	if err := fs.record(sfCall{Method: "ListAt", Obj: o.id, Off: off, N: len(b), Filepath: o.path}); err != nil {
		if fs.partialErr && len(b) > 0 && off >= 0 && off < int64(len(o.names)) {
			fs.sim.count("fault.backend.partial-list")
			return copy(b[:1], o.names[off:]), err
		}
		return 0, err
	}
	if off < 0 || off >= int64(len(o.names)) {
		return 0, io.EOF
	}
	rest := o.names[off:]
	max := len(b)
	switch fs.listStyle {
	case 2:
		if max > 1 {
			max = 1 + fs.sim.tape.next(max)
			fs.sim.count("fault.lister.short")
		}
	}
	n := copy(b[:max], rest)
	if n == len(rest) {
		switch fs.listStyle {
		case 1, 2:
			fs.sim.count("probe.lister.eof_on_following_call")
			return n, nil
		case 3:
			if n == len(b) {
				fs.sim.count("probe.lister.exact_fill_at_end")
			}
			return n, io.EOF
		}
		fs.sim.count("probe.lister.eof_with_last_entries")
		return n, io.EOF
	}
	return n, nil
}

func (o *sfObj) close() error {
	fs := o.fs
	fs.mu.Lock()
	o.closes++
	if o.inflight > 0 {
		o.duringCl += o.inflight
	}
	if o.ctx != nil {
		select {
		case <-o.ctx.Done():
			o.ctxDone = true
		default:
		}
	}
	fs.mu.Unlock()
	return fs.record(sfCall{Method: "Close", Obj: o.id, Filepath: o.path})
}

func (o *sfObj) transferError(err error) {
	fs := o.fs
	fs.mu.Lock()
	o.terrs++
	o.terrArg = err
	fs.mu.Unlock()
	fs.record(sfCall{Method: "TransferError", Obj: o.id, Filepath: o.path, Err: fmt.Sprint(err)})
}

// ---- FileInfo

type sfInfo struct {
	name string
	nd   *sfNode
	size int64
}

func (i *sfInfo) Name() string       { return i.name }
func (i *sfInfo) Size() int64        { return i.size }
func (i *sfInfo) Mode() os.FileMode  { return i.nd.mode }
func (i *sfInfo) ModTime() time.Time { return time.Unix(i.nd.mtime, 0) }
func (i *sfInfo) IsDir() bool        { return i.nd.kind == 'd' }
func (i *sfInfo) Sys() any           { return nil }
func (i *sfInfo) Uid() uint32        { return i.nd.uid }
func (i *sfInfo) Gid() uint32        { return i.nd.gid }

// sfPlainInfo has neither Uid/Gid nor extended data: its attributes go out with fewer flags.
type sfPlainInfo struct{ i *sfInfo }

func (p sfPlainInfo) Name() string       { return p.i.Name() }
func (p sfPlainInfo) Size() int64        { return p.i.Size() }
func (p sfPlainInfo) Mode() os.FileMode  { return p.i.Mode() }
func (p sfPlainInfo) ModTime() time.Time { return p.i.ModTime() }
func (p sfPlainInfo) IsDir() bool        { return p.i.IsDir() }
func (p sfPlainInfo) Sys() any           { return nil }

// sfExtInfo adds extended data.
type sfExtInfo struct{ *sfInfo }

func (e sfExtInfo) Extended() []StatExtended { return e.nd.ext }

// sfSysInfo has Uid/Gid methods *and* a Sys() that is a *syscall.Stat_t naming another owner (a handler that wraps
// real os.FileInfo values to present virtual users): the documented rule is that the methods win.
type sfSysInfo struct{ *sfInfo }

func (e sfSysInfo) Sys() any {
	return &syscall.Stat_t{Uid: e.nd.uid + 7777, Gid: e.nd.gid + 7777, Nlink: 3}
}

// sfSnap copies a node's attributes (callers hold fs.mu): a FileInfo handed to the server is marshalled later, in
// another goroutine, and must not change under it when a following request modifies the node.
func sfSnap(nd *sfNode) *sfNode {
	cp := *nd
	cp.data = nil
	return &cp
}

// sfStatSysInfo is a plain FileInfo whose Sys() is an (empty) *FileStat, as a handler relaying another server's
// listing might leave it: the attributes are what the FileInfo methods say.
type sfStatSysInfo struct{ sfPlainInfo }

func (e sfStatSysInfo) Sys() any { return &FileStat{} }

func (fs *sfs) info(p string, nd *sfNode) os.FileInfo {
	i := &sfInfo{name: path.Base(p), nd: sfSnap(nd), size: int64(len(nd.data))}
	switch nd.shape {
	case 1:
		return sfPlainInfo{i}
	case 2:
		return sfExtInfo{i}
	case 3:
		return sfSysInfo{i}
	case 4:
		return sfStatSysInfo{sfPlainInfo{i}}
	}
	return i
}

func (fs *sfs) children(dir string) []string {
	var out []string
	pre := dir
	if !strings.HasSuffix(pre, "/") {
		pre += "/"
	}
	for p := range fs.nodes {
		if p != "/" && strings.HasPrefix(p, pre) && !strings.Contains(p[len(pre):], "/") {
			out = append(out, p)
		}
	}
	sort.Strings(out)
	return out
}

// ---- handler methods (shared implementation; the exported-method wrappers follow)

func (fs *sfs) fileread(r *Request) (io.ReaderAt, error) {
	fs.gate(true, "fileread:"+r.Filepath)
	if err := fs.recordReq("Fileread", r); err != nil {
		return nil, err
	}
	fs.mu.Lock()
	nd := fs.nodes[r.Filepath]
	fs.mu.Unlock()
	if nd == nil {
		return nil, os.ErrNotExist
	}
	if nd.kind != 'f' {
		return nil, &os.PathError{Op: "open", Path: r.Filepath, Err: syscall.EISDIR}
	}
	return fs.wrap(fs.newObj("r", r.Filepath, r)).(io.ReaderAt), nil
}

func (fs *sfs) openForWrite(r *Request) error {
	fs.mu.Lock()
	defer fs.mu.Unlock()
	fl := r.Pflags()
	nd := fs.nodes[r.Filepath]
	if nd == nil {
		if !fl.Creat {
			return os.ErrNotExist
		}
		if par := fs.nodes[path.Dir(r.Filepath)]; par == nil || par.kind != 'd' {
			return os.ErrNotExist
		}
		nd = &sfNode{kind: 'f', mode: 0o644, mtime: 946684800}
		fs.nodes[r.Filepath] = nd
	} else {
		if nd.kind != 'f' {
			return &os.PathError{Op: "open", Path: r.Filepath, Err: syscall.EISDIR}
		}
		if fl.Creat && fl.Excl {
			return os.ErrExist
		}
	}
	if fl.Trunc {
		nd.data = nil
	}
	return nil
}

func (fs *sfs) filewrite(r *Request) (io.WriterAt, error) {
	fs.gate(true, "filewrite:"+r.Filepath)
	if err := fs.recordReq("Filewrite", r); err != nil {
		return nil, err
	}
	if err := fs.openForWrite(r); err != nil {
		return nil, err
	}
	return fs.wrap(fs.newObj("w", r.Filepath, r)).(io.WriterAt), nil
}

func (fs *sfs) openfile(r *Request) (WriterAtReaderAt, error) {
	fs.gate(true, "openfile:"+r.Filepath)
	if err := fs.recordReq("OpenFile", r); err != nil {
		return nil, err
	}
	if err := fs.openForWrite(r); err != nil {
		return nil, err
	}
	return fs.wrap(fs.newObj("rw", r.Filepath, r)).(WriterAtReaderAt), nil
}

func (fs *sfs) filecmd(method string, r *Request) error {
	fs.gate(true, "filecmd:"+r.Method+":"+r.Filepath)
	if err := fs.recordReq(method, r); err != nil {
		return err
	}
	fs.mu.Lock()
	defer fs.mu.Unlock()
	switch r.Method {
	case "Setstat":
		nd := fs.nodes[r.Filepath]
		if nd == nil {
			return os.ErrNotExist
		}
		fl := r.AttrFlags()
		at := r.Attributes()
		if at == nil {
			return errors.New("bad attributes")
		}
		if fl.Size && nd.kind == 'f' {
			if at.Size > 1<<22 {
				return &os.PathError{Op: "truncate", Path: r.Filepath, Err: syscall.EFBIG}
			}
			sz := int(at.Size)
			if sz <= len(nd.data) {
				nd.data = nd.data[:sz]
			} else {
				nd.data = append(nd.data, make([]byte, sz-len(nd.data))...)
			}
		}
		if fl.Permissions {
			nd.mode = nd.mode&os.ModeType | at.FileMode()&(os.ModePerm|os.ModeSetuid|os.ModeSetgid|os.ModeSticky)
		}
		if fl.UidGid {
			nd.uid, nd.gid = at.UID, at.GID
		}
		if fl.Acmodtime {
			nd.mtime = int64(at.Mtime)
		}
	case "Rename", "PosixRename":
		nd := fs.nodes[r.Filepath]
		if nd == nil {
			return os.ErrNotExist
		}
		if _, ok := fs.nodes[r.Target]; ok && r.Method == "Rename" && method != "PosixRename" {
			return os.ErrExist
		}
		fs.nodes[r.Target] = nd
		delete(fs.nodes, r.Filepath)
	case "Rmdir":
		nd := fs.nodes[r.Filepath]
		if nd == nil {
			return os.ErrNotExist
		}
		if nd.kind != 'd' {
			return &os.PathError{Op: "rmdir", Path: r.Filepath, Err: syscall.ENOTDIR}
		}
		if len(fs.children(r.Filepath)) > 0 {
			return &os.PathError{Op: "rmdir", Path: r.Filepath, Err: syscall.ENOTEMPTY}
		}
		delete(fs.nodes, r.Filepath)
	case "Remove":
		nd := fs.nodes[r.Filepath]
		if nd == nil {
			return os.ErrNotExist
		}
		if nd.kind == 'd' {
			return &os.PathError{Op: "remove", Path: r.Filepath, Err: syscall.EISDIR}
		}
		delete(fs.nodes, r.Filepath)
	case "Mkdir":
		if _, ok := fs.nodes[r.Filepath]; ok {
			return os.ErrExist
		}
		if par := fs.nodes[path.Dir(r.Filepath)]; par == nil || par.kind != 'd' {
			return os.ErrNotExist
		}
		fs.nodes[r.Filepath] = &sfNode{kind: 'd', mode: os.ModeDir | 0o755, mtime: 946684800}
	case "Link":
		nd := fs.nodes[r.Filepath]
		if nd == nil {
			return os.ErrNotExist
		}
		if _, ok := fs.nodes[r.Target]; ok {
			return os.ErrExist
		}
		fs.nodes[r.Target] = nd
	case "Symlink":
		if _, ok := fs.nodes[r.Target]; ok {
			return os.ErrExist
		}
		fs.nodes[r.Target] = &sfNode{kind: 'l', target: r.Filepath, mode: os.ModeSymlink | 0o777, mtime: 946684800}
	default:
		return fmt.Errorf("simfs: unexpected method %q", r.Method)
	}
	return nil
}

func (fs *sfs) statvfs(r *Request) (*StatVFS, error) {
	fs.gate(true, "statvfs:"+r.Filepath)
	if err := fs.recordReq("StatVFS", r); err != nil {
		return nil, err
	}
	return &StatVFS{Bsize: 4096, Frsize: 4096, Blocks: 1000, Bfree: 500, Bavail: 400, Files: 100, Ffree: 50, Favail: 40, Fsid: 7, Flag: 1, Namemax: 255}, nil
}

func (fs *sfs) filelist(method string, r *Request) (ListerAt, error) {
	fs.gate(true, strings.ToLower(method)+":"+r.Method+":"+r.Filepath)
	if err := fs.recordReq(method, r); err != nil {
		return nil, err
	}
	fs.mu.Lock()
	nd := fs.nodes[r.Filepath]
	var names []os.FileInfo
	switch r.Method {
	case "List":
		if nd == nil {
			fs.mu.Unlock()
			return nil, os.ErrNotExist
		}
		if nd.kind != 'd' {
			fs.mu.Unlock()
			return nil, syscall.ENOTDIR
		}
		if fs.dotEntries {
			names = append(names, &sfInfo{name: ".", nd: sfSnap(nd)}, &sfInfo{name: "..", nd: sfSnap(nd)})
		}
		for _, c := range fs.children(r.Filepath) {
			names = append(names, fs.info(c, fs.nodes[c]))
		}
	case "Stat", "Lstat":
		if nd == nil {
			fs.mu.Unlock()
			return nil, os.ErrNotExist
		}
		if nd.kind == 'l' && r.Method == "Stat" {
			t := nd.target
			if !path.IsAbs(t) {
				t = path.Join(path.Dir(r.Filepath), t)
			}
			if tn := fs.nodes[t]; tn != nil {
				nd = tn
			} else {
				fs.mu.Unlock()
				return nil, os.ErrNotExist
			}
		}
		names = []os.FileInfo{fs.info(r.Filepath, nd)}
	case "Readlink":
		if nd == nil {
			fs.mu.Unlock()
			return nil, os.ErrNotExist
		}
		if nd.kind != 'l' {
			fs.mu.Unlock()
			return nil, syscall.EINVAL
		}
		names = []os.FileInfo{&sfInfo{name: nd.target, nd: sfSnap(nd)}}
	default:
		fs.mu.Unlock()
		return nil, fmt.Errorf("simfs: unexpected list method %q", r.Method)
	}
	fs.mu.Unlock()
	o := fs.newObj("ls", r.Filepath, r)
	o.names = names
	if r.Method != "List" {
		// stat-like listers are not registered as handles; the server never closes them
		o.kind = "stat"
	}
	return fs.wrap(o).(ListerAt), nil
}

func (fs *sfs) realpath(p string) (string, error) {
	if err := fs.record(sfCall{Method: "RealPath", Filepath: p}); err != nil {
		return "", err
	}
	if fs.realPathFn != nil {
		return fs.realPathFn(p)
	}
	return "/resolved/" + strings.TrimLeft(p, "/"), nil
}

func (fs *sfs) readlink(p string) (string, error) {
	if err := fs.record(sfCall{Method: "Readlink", Filepath: p}); err != nil {
		return "", err
	}
	fs.mu.Lock()
	defer fs.mu.Unlock()
	nd := fs.nodes[p]
	if nd == nil {
		return "", os.ErrNotExist
	}
	if nd.kind != 'l' {
		return "", syscall.EINVAL
	}
	return nd.target, nil
}

// ---- concrete handler types with different optional-interface sets

type sfGet struct{ fs *sfs }

func (h sfGet) Fileread(r *Request) (io.ReaderAt, error) { return h.fs.fileread(r) }

type sfPut struct{ fs *sfs }

func (h sfPut) Filewrite(r *Request) (io.WriterAt, error) { return h.fs.filewrite(r) }

type sfPutOpen struct{ sfPut }

func (h sfPutOpen) OpenFile(r *Request) (WriterAtReaderAt, error) { return h.fs.openfile(r) }

type sfCmd struct{ fs *sfs }

func (h sfCmd) Filecmd(r *Request) error { return h.fs.filecmd("Filecmd", r) }

type sfCmdPosix struct{ sfCmd }

func (h sfCmdPosix) PosixRename(r *Request) error { return h.fs.filecmd("PosixRename", r) }

type sfCmdVFS struct{ sfCmd }

func (h sfCmdVFS) StatVFS(r *Request) (*StatVFS, error) { return h.fs.statvfs(r) }

type sfCmdAll struct{ sfCmd }

func (h sfCmdAll) PosixRename(r *Request) error         { return h.fs.filecmd("PosixRename", r) }
func (h sfCmdAll) StatVFS(r *Request) (*StatVFS, error) { return h.fs.statvfs(r) }

type sfList struct{ fs *sfs }

func (h sfList) Filelist(r *Request) (ListerAt, error) { return h.fs.filelist("Filelist", r) }

type sfListLstat struct{ sfList }

func (h sfListLstat) Lstat(r *Request) (ListerAt, error) { return h.fs.filelist("Lstat", r) }

type sfListReal struct{ sfList }

func (h sfListReal) RealPath(p string) (string, error) { return h.fs.realpath(p) }

type sfListLegacy struct{ sfList }

func (h sfListLegacy) RealPath(p string) string { s, _ := h.fs.realpath(p); return s }

type sfListReadlink struct{ sfList }

func (h sfListReadlink) Readlink(p string) (string, error) { return h.fs.readlink(p) }

type sfListAll struct{ sfList }

func (h sfListAll) Lstat(r *Request) (ListerAt, error) { return h.fs.filelist("Lstat", r) }
func (h sfListAll) RealPath(p string) (string, error)  { return h.fs.realpath(p) }
func (h sfListAll) Readlink(p string) (string, error)  { return h.fs.readlink(p) }
func (h sfListAll) LookupUserName(uid string) string   { return "u" + uid }
func (h sfListAll) LookupGroupName(gid string) string  { return "g" + gid }

// handlers builds a Handlers value; opt bits choose the optional interfaces:
// 1 OpenFile, 2 PosixRename, 4 StatVFS, 8 Lstat, 16 RealPath, 32 legacy RealPath, 64 Readlink, 128 all lister extras
func (fs *sfs) handlers(opt int) Handlers {
	var h Handlers
	h.FileGet = sfGet{fs}
	if opt&1 != 0 {
		h.FilePut = sfPutOpen{sfPut{fs}}
	} else {
		h.FilePut = sfPut{fs}
	}
	switch {
	case opt&2 != 0 && opt&4 != 0:
		h.FileCmd = sfCmdAll{sfCmd{fs}}
	case opt&2 != 0:
		h.FileCmd = sfCmdPosix{sfCmd{fs}}
	case opt&4 != 0:
		h.FileCmd = sfCmdVFS{sfCmd{fs}}
	default:
		h.FileCmd = sfCmd{fs}
	}
	switch {
	case opt&128 != 0:
		h.FileList = sfListAll{sfList{fs}}
	case opt&8 != 0:
		h.FileList = sfListLstat{sfList{fs}}
	case opt&16 != 0:
		h.FileList = sfListReal{sfList{fs}}
	case opt&32 != 0:
		h.FileList = sfListLegacy{sfList{fs}}
	case opt&64 != 0:
		h.FileList = sfListReadlink{sfList{fs}}
	default:
		h.FileList = sfList{fs}
	}
	return h
}

func (fs *sfs) snapshotCalls() []sfCall {
	fs.mu.Lock()
	defer fs.mu.Unlock()
	return append([]sfCall(nil), fs.calls...)
}

func (fs *sfs) fileData(p string) ([]byte, bool) {
	fs.mu.Lock()
	defer fs.mu.Unlock()
	nd := fs.nodes[p]
	if nd == nil || nd.kind != 'f' {
		return nil, false
	}
	return append([]byte(nil), nd.data...), true
}

// treeDigest is a canonical description of the whole store (for "no side effect" oracles).
func (fs *sfs) treeDigest() string {
	fs.mu.Lock()
	defer fs.mu.Unlock()
	ps := make([]string, 0, len(fs.nodes))
	for p := range fs.nodes {
		ps = append(ps, p)
	}
	sort.Strings(ps)
	var sb strings.Builder
	for _, p := range ps {
		nd := fs.nodes[p]
		fmt.Fprintf(&sb, "%s %c %o %d %d:%d %q %x\n", p, nd.kind, nd.mode, nd.mtime, nd.uid, nd.gid, nd.target, nd.data)
	}
	return sb.String()
}
