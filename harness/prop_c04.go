//go:build verif

package sftp

// C04 — connection loss fails every call and hangs none.

import (
	"bytes"
	"errors"
	"fmt"
	"io"
	"math/rand/v2"
	"os"
	"sort"
	"strings"
	"sync"
	"testing"
	"testing/synctest"
)

var vfT *testing.T // for golden runs started from generators

func init() {
	vfRegister(&vfProp{
		id:        "C04",
		classes:   []string{"single", "multi", "single", "multi", "wrerr", "golden", "single", "multi", "single", "multi", "wrerr", "quickclose", "userclose"},
		gen:       c04Gen,
		exec:      c04Exec,
		enumerate: c04Enumerate,
		maxSteps:  60000,
	})
}

func c04Base(class string, seed uint64) *vfScenario {
	rng := vfRng(seed, 1)
	sc := &vfScenario{Cfg: map[string]int64{}}
	ntasks := 1 + rng.IntN(5)
	P := []int{1, 2, 3, 4, 5, 8, 16, 100}[rng.IntN(8)]
	M := []int{1, 2, 3, 4, 8, 64}[rng.IntN(6)]
	sc.Cfg["P"], sc.Cfg["M"] = int64(P), int64(M)
	sc.Cfg["sizeA"] = int64(rng.IntN(5*P + 3))
	multi := class == "multi" || (class != "single" && rng.IntN(2) == 0)
	sites := int64(1 | 2 | 4 | 16)
	if !multi {
		sites |= 8
	}
	if rng.IntN(4) == 0 {
		sites &= int64(rng.IntN(32))
	}
	if multi {
		// without f.map/f.loop the slicer's select coin (worker free vs cancelled) shows after a failure
		sites |= 4
	}
	if !multi && rng.IntN(2) == 0 {
		// callers may be held between sending a request and starting to wait for its reply. Like cc.send this
		// site is keyed by the request id, and ids are drawn by whichever goroutine gets there first: with the
		// helper goroutines of multi-chunk transfers running side by side after a fault that order is not ours.
		sites |= 128
	}
	if !multi && rng.IntN(4) == 0 {
		sc.Cfg["shortreads"] = int64(1 + rng.IntN(3)) // the peer answers READs with fewer bytes than asked for
	}
	if !multi && rng.IntN(3) == 0 {
		// a writer whose Close does not make later Writes fail (a glued struct{io.Writer; io.Closer}, a pipe to a
		// process that has gone): a request registered too late must still be refused, nothing will rescue it
		sc.Cfg["softclose"] = 1
	}
	if !multi && rng.IntN(2) == 0 {
		sites |= 256 | 16 // the receiver may be held inside broadcastErr, after notifying and before marking the connection closed
	}
	sc.Cfg["sites"] = sites
	sc.Cfg["concr"] = int64(rng.IntN(2))
	sc.Cfg["concw"] = int64(rng.IntN(2))
	sc.Cfg["fstat"] = int64(rng.IntN(2))
	sc.Cfg["errwithdata"] = int64(rng.IntN(2))
	for t := 0; t < ntasks; t++ {
		n := 1 + rng.IntN(4)
		for i := 0; i < n; i++ {
			sc.Ops = append(sc.Ops, c04GenOp(rng, t, P, M, multi))
		}
	}
	return sc
}

func c04GenOp(rng *rand.Rand, t, P, M int, multi bool) vfOp {
	p := fmt.Sprintf("/t%d%s", t, c03Paths[rng.IntN(len(c03Paths))])
	ln := func() int {
		if multi {
			return P + 1 + rng.IntN(3*P*2+2)
		}
		return 1 + rng.IntN(P)
	}
	x := rng.IntN(100)
	if multi {
		switch {
		case x < 30:
			return vfOp{K: "readat", T: t, H: 100 + t, Off: int64(rng.IntN(2 * P)), N: ln()}
		case x < 45:
			return vfOp{K: "writeat", T: t, H: 200 + t, Off: int64(rng.IntN(2 * P)), N: ln(), B: int64(rng.IntN(1 << 20))}
		case x < 60:
			return vfOp{K: "writeto", T: t, H: 100 + t}
		case x < 72:
			return vfOp{K: "readfrom", T: t, H: 200 + t, N: ln(), B: int64(rng.IntN(1 << 20)), S: fmt.Sprintf("%d,0,-1,0", rng.IntN(5))}
		case x < 84:
			return vfOp{K: "readfromc", T: t, H: 200 + t, N: ln(), A: int64(rng.IntN(M + 2)), B: int64(rng.IntN(1 << 20)), S: "4,0,-1,0"}
		case x < 92:
			return vfOp{K: "read", T: t, H: 100 + t, N: ln()}
		default:
			return vfOp{K: "readdir", T: t, P: "/dir"}
		}
	}
	switch {
	case x < 25:
		return vfOp{K: "stat", T: t, P: p}
	case x < 35:
		return vfOp{K: "lstat", T: t, P: p}
	case x < 42:
		return vfOp{K: "readlink", T: t, P: p}
	case x < 50:
		return vfOp{K: "realpath", T: t, P: p}
	case x < 70:
		return vfOp{K: "readat", T: t, H: 100 + t, Off: int64(rng.IntN(3 * P)), N: ln()}
	case x < 78:
		return vfOp{K: "fstat", T: t, H: 100 + t}
	case x < 90:
		return vfOp{K: "writeat", T: t, H: 200 + t, Off: int64(rng.IntN(2 * P)), N: ln(), B: int64(rng.IntN(1 << 20))}
	default:
		return vfOp{K: "readat", T: t, H: 200 + t, Off: 0, N: ln()}
	}
}

// golden runs the fault-free scenario and returns the length of the server->client
// stream and the number of client->server writes.
func c04Golden(sc *vfScenario) (int, int) {
	g := sc.clone()
	g.Faults = nil
	g.Prop = "C04"
	res := vfExecute(vfT, g, false)
	return res.Stats["s2c.len"], res.Stats["c2s.writes"]
}

func c04Gen(class string, seed uint64, tier string) *vfScenario {
	if class == "quickclose" {
		// a session that is closed the moment it has been established
		return &vfScenario{Cfg: map[string]int64{"quickclose": 1, "sites": int64(vfRng(seed, 3).IntN(4))}}
	}
	if class == "userclose" {
		// the connection is not lost: the application closes the Client from one goroutine while calls of others are
		// in flight (the peer then sees the end of the stream and hangs up, cleanly and on a frame boundary)
		rng := vfRng(seed, 4)
		sc := c04Base([]string{"single", "multi"}[rng.IntN(2)], seed)
		sc.Cfg["userclose"] = 1
		sc.Cfg["sites"] = sc.Cfg["sites"] &^ (8 | 128 | 256) // (the id-keyed sites stay off: programs may be multi-chunk)
		return sc
	}
	sc := c04Base(class, seed)
	if class == "golden" {
		return sc
	}
	rng := vfRng(seed, 2)
	slen, nwr := c04Golden(sc)
	if class == "wrerr" {
		sc.Faults = []vfFault{{K: "wrerr", At: int64(rng.IntN(nwr + 1)), A: int64(rng.IntN(3)), B: int64(rng.IntN(3))}}
		if rng.IntN(3) == 0 {
			sc.Faults = append(sc.Faults, vfFault{K: "cut", At: int64(rng.IntN(slen + 1)), A: int64(rng.IntN(3))})
		}
		return sc
	}
	sc.Faults = []vfFault{{K: "cut", At: int64(rng.IntN(slen + 1)), A: int64(rng.IntN(3))}}
	return sc
}

// c04Enumerate: for a number of base scenarios, every byte offset of the golden stream
// (clean EOF and error), and every write ordinal.
func c04Enumerate(tier string, base uint64, emit func(*vfScenario)) {
	nbase := 12
	if tier == "thorough" {
		nbase = 120
	}
	for i := 0; i < nbase; i++ {
		class := []string{"single", "multi"}[i%2]
		seed := vfMix(vfMix(base, 0xc04e), uint64(i))
		b := c04Base(class, seed)
		b.Prop, b.Class, b.Seed = "C04", "enum-"+class, seed
		slen, nwr := c04Golden(b)
		step := 1
		if tier != "thorough" && slen > 150 {
			step = slen / 150
		}
		for o := 0; o <= slen; o += step {
			for kind := 0; kind < 2; kind++ {
				sc := b.clone()
				sc.Faults = []vfFault{{K: "cut", At: int64(o), A: int64(kind * 2)}}
				emit(sc)
			}
		}
		for w := 0; w < nwr; w++ {
			for short := 0; short < 2; short++ {
				sc := b.clone()
				sc.Faults = []vfFault{{K: "wrerr", At: int64(w), A: int64(short)}}
				emit(sc)
			}
		}
	}
}

// c04ShortReads: set per run (runs are sequential in a worker process): with a peer that answers READs short even a
// one-chunk read is a multi-request call.
var c04ShortReads bool

type c04ReqInfo struct {
	task, op int
	replyEnd int // offset in s2c just after the reply, -1 unanswered
	off      int64
	dataLen  int // bytes of a DATA reply
}

// c04QuickClose: NewClientPipe and Close back to back in one goroutine. When Close has returned, the receiver goroutine
// must be gone (it is what Close waits for), not merely about to start.
func c04QuickClose(r *vfRun) {
	sc, sim := r.sc, r.sim
	srv := vfNewScriptServer(sim)
	vfClientSites(sim, sc.cfg("sites", 3))
	var cerr, closeErr error
	returned := false
	tk := vfSpawnTask(sim, 0, 1, func(int) {
		var c *Client
		c, cerr = vfNewSimClient(srv.c2s, srv.s2c)
		if cerr == nil {
			closeErr = c.Close()
			returned = true
		}
	})
	sim.run(tk.finished)
	if sim.failed() {
		return
	}
	if !tk.finished() || cerr != nil {
		r.fail("C04/close-or-wait-hangs", "quickclose", "NewClientPipe followed at once by Close did not return (handshake error %v); blocked: %v", cerr, vfBubbleGoroutines())
		return
	}
	_ = closeErr
	synctest.Wait()
	sim.mu.Lock()
	alive := srv.s2c.waiter != nil
	sim.mu.Unlock()
	if returned && alive {
		r.fail("C04/goroutine-leak", "recv-alive-when-Close-returned", "Close, called right after NewClientPipe, returned while the receiver goroutine was (still, or only now) reading the link")
		return
	}
	sim.run(nil)
	if left := vfBubbleGoroutines(); len(left) > 0 {
		r.fail("C04/goroutine-leak", c04LeakSig(left), "after Close returned %d package goroutines are still alive: %v", len(left), left)
		return
	}
	sim.count("probe.closed_right_after_connect")
	r.res.NonTrivial = true
}

// c04UserClose: Client.Close from one task while the calls of the others are in flight. Every call returns (a result or
// an error), Close and Wait return, and afterwards none of the package's goroutines is left.
func c04UserClose(r *vfRun) {
	sc, sim := r.sc, r.sim
	srv := vfNewScriptServer(sim)
	tag := sc.Seed
	srv.files["/a"] = vfFill(tag^1, 0, int(sc.cfg("sizeA", 10)))
	srv.addDir("/dir", "e1", "e2", "e3", "e4", "e5")
	srv.hangupEarly = true
	vfClientSites(sim, sc.cfg("sites", 7))
	P, M := int(sc.cfg("P", 4)), int(sc.cfg("M", 2))
	c, err := vfStartClient(sim, srv.c2s, srv.s2c, MaxPacketUnchecked(P), MaxConcurrentRequestsPerFile(M),
		UseConcurrentReads(sc.cfg("concr", 1) != 0), UseConcurrentWrites(sc.cfg("concw", 0) != 0), UseFstat(sc.cfg("fstat", 0) != 0))
	if err != nil {
		r.fail("C04/handshake", "handshake", "handshake with a correct peer failed: %v", err)
		return
	}
	env := &vfClientEnv{sim: sim, prop: "C04", c: c, files: map[int]*File{}, tag: tag}
	byTask := map[int][]vfOp{}
	var tids []int
	for _, op := range sc.Ops {
		if _, ok := byTask[op.T]; !ok {
			tids = append(tids, op.T)
		}
		byTask[op.T] = append(byTask[op.T], op)
	}
	sort.Ints(tids)
	var setup []vfOp
	for _, t := range tids {
		setup = append(setup, vfOp{K: "open", P: "/a", H: 100 + t}, vfOp{K: "open", P: fmt.Sprintf("/w%d", t), H: 200 + t, A: int64(os.O_RDWR | os.O_CREATE)})
	}
	st := vfSpawnTask(sim, 99, len(setup), func(i int) { env.do(setup[i]) })
	sim.run(st.finished)
	if sim.failed() || !st.finished() {
		if !sim.failed() {
			r.fail("C04/setup", "setup", "opening files against a correct peer did not finish")
		}
		return
	}
	var tasks []*vfTask
	for _, t := range tids {
		ops := byTask[t]
		tasks = append(tasks, vfSpawnTask(sim, t, len(ops), func(i int) { env.do(ops[i]) }))
	}
	closed, waited := false, false
	tasks = append(tasks, vfSpawnTask(sim, 90, 1, func(int) { c.Close(); closed = true }))
	tasks = append(tasks, vfSpawnTask(sim, 91, 1, func(int) { c.Wait(); waited = true }))
	allDone := func() bool {
		for _, t := range tasks {
			if !t.finished() {
				return false
			}
		}
		return true
	}
	sim.run(allDone)
	if sim.failed() {
		return
	}
	if !allDone() {
		r.fail("C04/call-hangs", "userclose", "Client.Close was called while calls were in flight; afterwards not every call (or Close: %v, or Wait: %v) returned (steps=%d); blocked: %v", closed, waited, sim.steps, vfBubbleGoroutines())
		return
	}
	sim.run(nil)
	if left := vfBubbleGoroutines(); len(left) > 0 {
		r.fail("C04/goroutine-leak", c04LeakSig(left), "after Close returned %d package goroutines are still alive: %v", len(left), left)
		return
	}
	sim.count("probe.closed_by_the_application_with_calls_in_flight")
	r.res.NonTrivial = true
}

func c04Exec(r *vfRun) {
	if r.sc.cfg("quickclose", 0) != 0 {
		c04QuickClose(r)
		return
	}
	if r.sc.cfg("userclose", 0) != 0 {
		c04UserClose(r)
		return
	}
	sc, sim := r.sc, r.sim
	srv := vfNewScriptServer(sim)
	tag := sc.Seed
	contentA := vfFill(tag^1, 0, int(sc.cfg("sizeA", 10)))
	srv.files["/a"] = append([]byte(nil), contentA...)
	dirNames := []string{"e1", "e2", "e3", "e4", "e5"}
	srv.addDir("/dir", dirNames...)
	vfClientSites(sim, sc.cfg("sites", 31))
	P, M := int(sc.cfg("P", 4)), int(sc.cfg("M", 2))
	c, err := vfStartClient(sim, srv.c2s, srv.s2c, MaxPacketUnchecked(P), MaxConcurrentRequestsPerFile(M),
		UseConcurrentReads(sc.cfg("concr", 1) != 0), UseConcurrentWrites(sc.cfg("concw", 0) != 0), UseFstat(sc.cfg("fstat", 0) != 0))
	if err != nil {
		r.fail("C04/handshake", "handshake", "handshake with a correct peer failed: %v", err)
		return
	}
	env := &vfClientEnv{sim: sim, prop: "C04", c: c, files: map[int]*File{}, tag: tag}
	byTask := map[int][]vfOp{}
	var tids []int
	for _, op := range sc.Ops {
		if _, ok := byTask[op.T]; !ok {
			tids = append(tids, op.T)
		}
		byTask[op.T] = append(byTask[op.T], op)
	}
	sort.Ints(tids)
	var setup []vfOp
	for _, t := range tids {
		setup = append(setup, vfOp{K: "open", P: "/a", H: 100 + t})
		setup = append(setup, vfOp{K: "open", P: fmt.Sprintf("/w%d", t), H: 200 + t, A: int64(os.O_RDWR | os.O_CREATE)})
	}
	setupOK := true
	st := vfSpawnTask(sim, 99, len(setup), func(i int) {
		if res := env.do(setup[i]); res.Err != nil {
			setupOK = false
		}
	})
	sim.run(st.finished)
	if !st.finished() || !setupOK {
		if !sim.failed() {
			r.fail("C04/setup", "setup", "opening files against a correct peer failed or did not finish")
		}
		return
	}
	base := len(srv.s2c.buf)
	baseWrites := srv.c2s.writes
	srv.s2c.errWithData = sc.cfg("errwithdata", 0) != 0
	srv.c2s.softClose = sc.cfg("softclose", 0) != 0
	// plan the faults (offsets are relative to the end of the setup phase)
	cutAt, cutKind := -1, 0
	var cutErr error
	for _, f := range sc.Faults {
		switch f.K {
		case "cut":
			cutAt = base + int(f.At)
			cutKind = int(f.A)
			cutErr = []error{io.EOF, io.ErrUnexpectedEOF, vfErrLinkReset}[cutKind%3]
			srv.s2c.cutAt, srv.s2c.cutErr = cutAt, cutErr
		case "wrerr":
			srv.c2s.wrFaultAt = baseWrites + int(f.At)
			srv.c2s.wrShort = int(f.A) * 3
			srv.c2s.wrErr = c13WrErrs[int(f.B)%len(c13WrErrs)] // io.EOF and io.ErrClosedPipe are what real transports return
		}
	}
	// attribution of requests to (task, op): by the task's own handles / path prefix
	tasksByID := map[int]*vfTask{}
	handleTask := map[string]int{}
	for h, hs := range srv.handles {
		_ = hs
		handleTask[h] = -1
	}
	// handles were issued in setup order: H1,H2 for the first task, ...
	for i, t := range tids {
		handleTask[fmt.Sprintf("H%d", 2*i+1)] = t
		handleTask[fmt.Sprintf("H%d", 2*i+2)] = t
	}
	reqs := map[*ssReq]*c04ReqInfo{}
	var reqMu sync.Mutex
	attribute := func(rq *ssReq) *c04ReqInfo {
		reqMu.Lock()
		defer reqMu.Unlock()
		if ri, ok := reqs[rq]; ok {
			return ri
		}
		t := -1
		q := rq.q
		if q.Handle != "" {
			if tt, ok := handleTask[q.Handle]; ok {
				t = tt
			}
		}
		if t < 0 && strings.HasPrefix(q.Path, "/t") {
			fmt.Sscanf(q.Path, "/t%d/", &t)
		}
		ri := &c04ReqInfo{task: t, op: -1, replyEnd: -1}
		if tk := tasksByID[t]; tk != nil {
			sim.mu.Lock()
			ri.op = tk.cur
			sim.mu.Unlock()
		}
		reqs[rq] = ri
		return ri
	}
	srv.onArrive = func(rq *ssReq) { attribute(rq) }
	srv.onAnswer = func(rq *ssReq, p *wResp) {
		ri := attribute(rq)
		ri.replyEnd = len(srv.s2c.buf)
		if p != nil && p.Type == wtData {
			ri.off, ri.dataLen = int64(rq.q.Offset), len(p.Data)
		}
	}
	srv.shortRead = int(sc.cfg("shortreads", 0))
	c04ShortReads = srv.shortRead > 0
	results := map[int][]*vfOpResult{}
	var tasks []*vfTask
	for _, t := range tids {
		t := t
		ops := byTask[t]
		results[t] = make([]*vfOpResult, len(ops))
		tk := vfSpawnTask(sim, t, len(ops), func(i int) { results[t][i] = env.do(ops[i]) })
		tasksByID[t] = tk
		tasks = append(tasks, tk)
	}
	allDone := func() bool {
		for _, t := range tasks {
			if !t.finished() {
				return false
			}
		}
		return true
	}
	sim.run(allDone)
	if sim.failed() {
		return
	}
	if !allDone() {
		r.fail("C04/call-hangs", c04HangSig(sim), "after the fault %v some call never returned (steps=%d stuck=%v); blocked: %v", sc.Faults, sim.steps, sim.stuck, vfBubbleGoroutines())
		return
	}
	// Wait and Close must return
	var waitErr, closeErr error
	waited := false
	readerAlive := false
	closer := vfSpawnTask(sim, 98, 2, func(i int) {
		if i == 0 {
			sim.mu.Lock()
			dead := srv.s2c.termErr != nil
			sim.mu.Unlock()
			if cutAt >= 0 && dead {
				waited = true
				waitErr = c.Wait()
			}
		} else {
			closeErr = c.Close()
			sim.mu.Lock()
			if srv.s2c.waiter != nil {
				readerAlive = true
			}
			sim.mu.Unlock()
		}
	})
	sim.run(closer.finished)
	if !closer.finished() {
		r.fail("C04/close-or-wait-hangs", c04HangSig(sim), "Wait/Close did not return after the fault %v; blocked: %v", sc.Faults, vfBubbleGoroutines())
		return
	}
	_ = closeErr
	// ... and at the quiescent point right after Close has returned the receiver is gone, whatever the peer does next
	synctest.Wait()
	sim.mu.Lock()
	if srv.s2c.waiter != nil {
		readerAlive = true
	}
	sim.mu.Unlock()
	if readerAlive {
		r.fail("C04/goroutine-leak", "recv-alive-when-Close-returned", "Close returned while the receiver goroutine was still blocked reading the link")
		return
	}
	sim.run(nil)
	if srv.c2s.closes == 0 {
		r.fail("C04/writer-not-closed", "close", "Close returned but the client never closed its writer end")
		return
	}
	cutFired := srv.s2c.termErr != nil && cutAt >= 0 && srv.s2c.rdOff >= cutAt && (sim.stats["fault.s2c.cut"] > 0 || sim.stats["fault.s2c.err-with-data"] > 0)
	if cutFired && waited {
		if waitErr == nil {
			r.fail("C04/wait-no-error", "wait", "Wait returned nil after the link was cut with %v", cutErr)
			return
		}
		// (after a failed client->server write the request may still have reached the peer; its reply then ends the
		// session with "sid not found" before the cut is seen - Wait reports that first cause)
		if cutKind%3 != 0 && !errors.Is(waitErr, cutErr) && sim.stats["fault.c2s.wrerr"] == 0 {
			r.fail("C04/wait-wrong-error", "wait", "Wait returned %v, the transport failed with %v", waitErr, cutErr)
			return
		}
	}
	// goroutine census
	if left := vfBubbleGoroutines(); len(left) > 0 {
		r.fail("C04/goroutine-leak", c04LeakSig(left), "after Close returned %d package goroutines are still alive: %v", len(left), left)
		return
	}
	// results
	affected := map[[2]int]bool{}
	nreq := map[[2]int]int{}
	for _, ri := range reqs {
		nreq[[2]int{ri.task, ri.op}]++
		if ri.replyEnd < 0 || (cutFired && ri.replyEnd > cutAt) || (cutAt >= 0 && ri.replyEnd > cutAt) {
			affected[[2]int{ri.task, ri.op}] = true
		}
	}
	wrFault := sim.stats["fault.c2s.wrerr"] > 0
	wrSeq := srv.c2s.wrFaultSeq
	nAffected := 0
	for _, t := range tids {
		ts := &c04TaskState{ownOK: true}
		for i, res := range results[t] {
			if res == nil || !res.Returned {
				r.fail("C04/call-hangs", "noresult", "task %d op %d has no result", t, i)
				return
			}
			aff := affected[[2]int{t, i}] || (wrFault && res.Return >= wrSeq)
			if termSeq := srv.s2c.termSeq; termSeq > 0 {
				if res.Invoke >= termSeq || nreq[[2]int{t, i}] == 0 {
					aff = true // started after the client saw the link fail, or its request never reached the wire
				} else if res.Return >= termSeq && !c04SingleRequest(res.Op, P, len(contentA), ts.pos) {
					aff = true // a multi-request call that was still running
				}
			}
			if aff {
				nAffected++
			}
			if !wrFault && (res.Op.K == "readat" || res.Op.K == "read") && res.Op.N <= P && res.Op.H < 200 && res.Err != nil && res.Err != io.EOF {
				// what was received completely before the failure is still returned: the bytes of this call's DATA
				// replies that got through, as far as they continue from the call's first offset
				start := res.Op.Off
				if res.Op.K == "read" {
					start = ts.pos
				}
				got := int64(0)
				for more := true; more; {
					more = false
					for _, ri := range reqs {
						if ri.task == t && ri.op == i && ri.dataLen > 0 && ri.off == start+got && ri.replyEnd >= 0 && (cutAt < 0 || ri.replyEnd <= cutAt) {
							got += int64(ri.dataLen)
							ri.dataLen = 0
							more = true
						}
					}
				}
				if res.N < got {
					r.fail("C04/received-data-dropped", res.Op.K, "task %d op %d %+v failed with %v and reports %d bytes, but DATA replies for its first %d bytes had been received completely before the failure", t, i, res.Op, res.Err, res.N, got)
					return
				}
			}
			if msg := c04Check(srv, res, contentA, ts, dirNames, aff, P); msg != "" {
				cls := "C04/wrong-result-unaffected-call"
				if aff {
					cls = "C04/wrong-result-affected-call"
				}
				r.fail(cls, res.Op.K, "task %d op %d %+v (affected by the fault: %v): %s", t, i, res.Op, aff, msg)
				return
			}
		}
	}
	sim.stats["s2c.len"] = len(srv.s2c.buf) - base
	sim.stats["c2s.writes"] = srv.c2s.writes - baseWrites
	if cutFired {
		sim.count("probe.cut_fired")
		if (cutAt-base)%1 == 0 && srv.s2c.rdOff == cutAt {
			// where inside a packet did the cut land?
			off := c04OffsetInPacket(srv.s2c.buf, cutAt)
			switch {
			case off == 0:
				sim.count("probe.cut_at_packet_boundary")
			case off < 4:
				sim.count("probe.cut_inside_header")
			default:
				sim.count("probe.cut_inside_body")
			}
		}
	}
	if nAffected > 0 {
		sim.count("probe.calls_in_flight_at_fault")
	}
	r.res.NonTrivial = (cutFired || wrFault) && nAffected > 0
}

func c04OffsetInPacket(buf []byte, at int) int {
	pos := 0
	for pos+4 <= len(buf) {
		n := int(uint32(buf[pos])<<24 | uint32(buf[pos+1])<<16 | uint32(buf[pos+2])<<8 | uint32(buf[pos+3]))
		if at < pos+4+n {
			return at - pos
		}
		pos += 4 + n
	}
	return at - pos
}

func c04HangSig(sim *vfSim) string {
	gs := vfBubbleGoroutines()
	return c04LeakSig(gs)
}

func c04LeakSig(gs []string) string {
	seen := map[string]bool{}
	var fn []string
	for _, g := range gs {
		if i := strings.LastIndex(g, " "); i >= 0 {
			f := g[i+1:]
			if !seen[f] && f != "" {
				seen[f] = true
				fn = append(fn, f)
			}
		}
	}
	sort.Strings(fn)
	if len(fn) > 3 {
		fn = fn[:3]
	}
	return strings.Join(fn, ",")
}

// c04Check: an unaffected call must return the model result; an affected one the model
// result or an error, never different data.
type c04TaskState struct {
	own   []byte
	ownOK bool
	pos   int64
}

func c04Check(srv *vfScriptServer, res *vfOpResult, a []byte, ts *c04TaskState, dirNames []string, affected bool, P int) string {
	op := res.Op
	own, pos := &ts.own, &ts.pos
	switch op.K {
	case "stat", "lstat", "fstat", "readlink", "realpath", "readdir":
		if affected && res.Err != nil {
			return ""
		}
		o2 := op
		if op.K == "fstat" {
			if res.Err != nil {
				return fmt.Sprintf("unexpected error %v", res.Err)
			}
			if res.Size != int64(len(a)) {
				return fmt.Sprintf("got size %d want %d", res.Size, len(a))
			}
			return ""
		}
		r2 := *res
		r2.Op = o2
		return c03Check(srv, &r2, a, nil, own, dirNames, P)
	case "readat":
		content := a
		if op.H >= 200 {
			if !ts.ownOK {
				return ""
			}
			content = *own
		}
		if !affected {
			return vfCheckReadAt(res, content)
		}
		return c04Prefix(res.Data, int(res.N), content, op.Off, res.Err, op.N)
	case "read":
		content := a
		off := *pos
		r2 := *res
		r2.Op.Off = off
		if res.N > 0 {
			*pos += res.N
		}
		if !affected {
			return vfCheckReadAt(&r2, content)
		}
		return c04Prefix(res.Data, int(res.N), content, off, res.Err, op.N)
	case "writeto":
		content := a
		off := *pos
		var want []byte
		if off < int64(len(content)) {
			want = content[off:]
		}
		*pos += res.N
		if !affected {
			if res.Err != nil || !bytes.Equal(res.SinkGot, want) || res.N != int64(len(want)) {
				return fmt.Sprintf("WriteTo gave n=%d err=%v sink=%x, want %x", res.N, res.Err, res.SinkGot, want)
			}
			return ""
		}
		if !bytes.HasPrefix(want, res.SinkGot) {
			return fmt.Sprintf("WriteTo delivered bytes that are not a prefix of the file: %x vs %x", res.SinkGot, want)
		}
		if res.N != int64(len(res.SinkGot)) {
			return fmt.Sprintf("WriteTo count %d but the sink received %d bytes", res.N, len(res.SinkGot))
		}
		if res.Err == nil && !bytes.Equal(res.SinkGot, want) {
			return fmt.Sprintf("WriteTo returned nil after delivering only %d of %d bytes", len(res.SinkGot), len(want))
		}
	case "writeat":
		if !affected {
			if res.Err != nil || res.N != int64(op.N) {
				return fmt.Sprintf("got n=%d err=%v", res.N, res.Err)
			}
		} else if res.Err == nil && res.N != int64(op.N) {
			return fmt.Sprintf("short write n=%d of %d with nil error", res.N, op.N)
		}
		// the served file is not compared after a fault (bytes beyond the acknowledged prefix are unconstrained)
		if res.Err == nil {
			end := int(op.Off) + op.N
			if end > len(*own) {
				*own = append(*own, make([]byte, end-len(*own))...)
			}
			copy((*own)[op.Off:], res.Data)
		} else {
			ts.ownOK = false
			return ""
		}
	case "readfrom", "readfromc":
		if !affected {
			if res.Err != nil || res.N != int64(op.N) {
				return fmt.Sprintf("got n=%d err=%v", res.N, res.Err)
			}
		} else if res.Err == nil && res.N != int64(op.N) {
			return fmt.Sprintf("short ReadFrom n=%d of %d with nil error", res.N, op.N)
		}
		ts.ownOK = false // offset-based writes after this are not tracked
	}
	return ""
}

// c04Prefix: whatever was read must be the file's bytes at that offset.
func c04Prefix(data []byte, n int, content []byte, off int64, err error, asked int) string {
	var want []byte
	if off < int64(len(content)) {
		want = content[off:]
	}
	if n > len(want) || !bytes.Equal(data[:n], want[:n]) {
		return fmt.Sprintf("returned %d bytes %x that are not the file's bytes at offset %d (%x)", n, data[:n], off, want)
	}
	if n < asked && err == nil {
		return fmt.Sprintf("short count %d of %d with nil error", n, asked)
	}
	return ""
}

// c04SingleRequest: calls that consist of exactly one request/reply.
func c04SingleRequest(op vfOp, P int, lenA int, pos int64) bool {
	switch op.K {
	case "stat", "lstat", "fstat", "readlink", "realpath":
		return true
	case "writeat":
		return op.N <= P
	case "readat":
		// a read that runs into the end of the file is completed with a second request
		return !c04ShortReads && op.N <= P && op.H < 200 && int(op.Off)+op.N <= lenA
	case "read":
		return !c04ShortReads && op.N <= P && op.H < 200 && int(pos)+op.N <= lenA
	}
	return false
}
