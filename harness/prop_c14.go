//go:build verif

package sftp

// C14 — close waits for the reads and writes sent before it.

import (
	"bytes"
	"fmt"
	"os"
)

func init() {
	vfRegister(&vfProp{
		id:       "C14",
		classes:  []string{"os", "os-alloc", "rs", "rs-alloc", "rs-park", "rs-park", "os-halfclose", "rs-halfclose", "os-stale", "rs-stale", "rs-wfail", "os-replyfail", "rs-replyfail", "os-stall", "rs-stall"},
		gen:      c14Gen,
		exec:     c14Exec,
		valid:    c14Valid,
		maxSteps: 60000,
	})
}

func c14Gen(class string, seed uint64, tier string) *vfScenario {
	rng := vfRng(seed, 1)
	sc := &vfScenario{Cfg: map[string]int64{}}
	switch class {
	case "os":
		sc.Cfg["kind"] = 0
	case "os-alloc":
		sc.Cfg["kind"], sc.Cfg["alloc"] = 0, 1
	case "rs":
		sc.Cfg["kind"] = 1
	case "rs-alloc":
		sc.Cfg["kind"], sc.Cfg["alloc"] = 1, 1
	case "rs-park":
		sc.Cfg["kind"], sc.Cfg["parkdata"] = 1, 1
		sc.Cfg["alloc"] = int64(rng.IntN(2))
	case "os-halfclose":
		// the client sends its bursts and half-closes without reading a single acknowledgement first
		sc.Cfg["kind"], sc.Cfg["halfclose"] = 0, 1
		sc.Cfg["alloc"] = int64(rng.IntN(2))
	case "rs-halfclose":
		sc.Cfg["kind"], sc.Cfg["halfclose"] = 1, 1
		sc.Cfg["parkdata"] = int64(rng.IntN(2))
		sc.Cfg["alloc"] = int64(rng.IntN(2))
	case "os-stale":
		// one handle's request is followed by a long run of traffic on other handles before its CLOSE
		sc.Cfg["kind"], sc.Cfg["stale"] = 0, 1
		sc.Cfg["alloc"] = int64(rng.IntN(2))
	case "rs-stale":
		sc.Cfg["kind"], sc.Cfg["stale"], sc.Cfg["parkdata"] = 1, 1, 1
		sc.Cfg["alloc"] = int64(rng.IntN(2))
	case "os-replyfail", "rs-replyfail":
		// the reply direction fails at some write (the peer stops reading) while requests keep arriving: the server
		// goes on serving them, and a CLOSE still has to wait for the reads and writes sent before it
		sc.Cfg["kind"] = int64(map[string]int{"os-replyfail": 0, "rs-replyfail": 1}[class])
		sc.Cfg["parkdata"] = int64(rng.IntN(2)) * sc.Cfg["kind"]
		sc.Cfg["alloc"] = int64(rng.IntN(2))
		sc.Faults = []vfFault{{K: "s2cwr", At: int64(2 + rng.IntN(14))}}
	case "os-stall", "rs-stall":
		// the peer is slow to take replies: a reply write stalls (holding the controller) while the burst and its CLOSE
		// arrive. Small bursts only (see C02's stall classes for why).
		sc.Cfg["kind"] = int64(map[string]int{"os-stall": 0, "rs-stall": 1}[class])
		sc.Cfg["parkdata"] = sc.Cfg["kind"]
		sc.Cfg["alloc"] = int64(rng.IntN(2))
		sc.Cfg["small"] = 1
		sc.Faults = []vfFault{{K: "stall", At: int64(2 + rng.IntN(6)), A: int64(1 + rng.IntN(3))}}
	case "rs-wfail":
		// the handler fails one WriteAt of the burst: everything else must go on as usual
		sc.Cfg["kind"] = 1
		sc.Cfg["parkdata"] = int64(rng.IntN(2))
		sc.Cfg["alloc"] = int64(rng.IntN(2))
		sc.Faults = []vfFault{{K: "wfail", At: int64(rng.IntN(6))}}
	}
	sc.Cfg["hopt"] = 1
	sc.Cfg["sites"] = int64(1 + rng.IntN(3))
	ops := []vfOp{{K: "init", A: 3}}
	nh := 1 + rng.IntN(3)
	stale := sc.Cfg["stale"] != 0
	if stale {
		nh = 2 + rng.IntN(2)
	}
	files := []string{"f0", "f1", "d/a"}
	slot := 0
	nextOff := map[int]int{} // per file index: next free write region
	rounds := 1 + rng.IntN(3)
	small := sc.Cfg["small"] != 0
	if small {
		nh, rounds = 1, 1
	}
	if rng.IntN(4) == 0 {
		sc.Cfg["dupids"] = int64(2 + rng.IntN(2)) // some requests repeat the id of the request before them
	}
	withCmds := rng.IntN(3) == 0 // commands (served by the other worker) in between the reads and writes
	for round := 0; round < rounds; round++ {
		var slots []int
		var fidx []int
		for h := 0; h < nh; h++ {
			fi := rng.IntN(len(files))
			ops = append(ops, vfOp{K: "open", P: files[fi], A: wfRead | wfWrite, H: slot})
			slots = append(slots, slot)
			fidx = append(fidx, fi)
			slot++
		}
		ops = append(ops, vfOp{K: "wait"})
		// one burst: rw requests on the handles, each handle's CLOSE somewhere after its traffic
		depth := []int{1, 2, 7, 8, 9, 16, 17, 24}[rng.IntN(8)]
		if rng.IntN(3) == 0 {
			depth = 1 + rng.IntN(12)
		}
		type item struct {
			op   vfOp
			slot int
		}
		var burst []vfOp
		perSlot := map[int]int{}
		if stale {
			depth = []int{16, 17, 18, 21, 25, 33}[rng.IntN(6)]
		}
		if small {
			depth = 1 + rng.IntN(3)
		}
		for i := 0; i < depth; i++ {
			k := rng.IntN(len(slots))
			if stale {
				// the first request goes to handle 0, all the others elsewhere
				k = 0
				if i > 0 {
					k = 1 + rng.IntN(len(slots)-1)
				}
			}
			s, fi := slots[k], fidx[k]
			perSlot[s]++
			if rng.IntN(2) == 0 {
				n := 1 + rng.IntN(6)
				off := 200 + nextOff[fi]
				nextOff[fi] += n
				burst = append(burst, vfOp{K: "write", H: s, Off: int64(off), N: n, B: int64(1 + fi)})
			} else {
				// reads stay inside the initial content (writes extend the file far beyond it)
				size := c14Size(files[fi])
				off := rng.IntN(size)
				burst = append(burst, vfOp{K: "read", H: s, Off: int64(off), N: 1 + rng.IntN(size-off)})
			}
		}
		if withCmds && !small {
			for i, k := 0, 1+rng.IntN(3); i < k; i++ {
				pos := rng.IntN(len(burst) + 1)
				burst = append(burst[:pos:pos], append([]vfOp{{K: "stat", P: files[rng.IntN(len(files))]}}, burst[pos:]...)...)
			}
		}
		// insert each handle's CLOSE after its last rw request, at a random later position
		for _, s := range slots {
			last := -1
			for i, o := range burst {
				if o.H == s && o.K != "close" {
					last = i
				}
			}
			pos := last + 1 + rng.IntN(len(burst)-last)
			if stale && s == slots[0] {
				pos = len(burst) - rng.IntN(2) // its CLOSE comes after (nearly) all the other traffic
			}
			burst = append(burst[:pos:pos], append([]vfOp{{K: "close", H: s}}, burst[pos:]...)...)
		}
		ops = append(ops, burst...)
		if rng.IntN(2) == 0 {
			ops = append(ops, vfOp{K: "wait"})
		}
	}
	sc.Ops = ops
	return sc
}

func c14Exec(r *vfRun) {
	sc := r.sc
	s := vfStartSession(r, sc.Ops)
	defer s.cleanup()
	sim := s.sim
	for _, f := range sc.Faults {
		if f.K == "wfail" && s.fs != nil {
			s.fs.planFault("WriteAt", int(f.At), c10Opaque)
		}
		if f.K == "s2cwr" {
			s.srv.s2c.wrFaultAt = int(f.At)
		}
		if f.K == "stall" {
			s.srv.s2c.stallAt, s.srv.s2c.stallLen = int(f.At), int(f.A)
		}
	}
	sim.run(nil)
	if sim.failed() {
		return
	}
	// writes the handler was told to fail: (file, offset)
	failedWrite := map[string]bool{}
	if s.fs != nil {
		s.fs.mu.Lock()
		for _, c := range s.fs.calls {
			if c.Method == "WriteAt" && c.Err != "" {
				failedWrite[fmt.Sprintf("%s@%d", c.Filepath, c.Off)] = true
			}
		}
		s.fs.mu.Unlock()
	}
	replyFail := sim.stats["fault.s2c.wrerr"] > 0
	c02CheckReplies(r, s.wc, !replyFail)
	if sim.failed() {
		r.sim.viol.Class = "C14/" + r.sim.viol.Class[4:]
		return
	}
	// reference content per file
	ref := map[string][]byte{}
	for _, f := range vfInitFiles {
		ref[f.p] = vfFill(s.tag^vfHashStr(f.p), 0, f.n)
	}
	slotFile := map[int]string{}
	wc := s.wc
	for i, q := range wc.reqs {
		op := wc.ops[i]
		if i >= len(wc.replies) {
			// the reply was lost with the reply direction; the request was served all the same
			if !replyFail {
				r.fail("C14/missing-reply", "count", "no reply to %v", q)
				return
			}
			if op.K == "write" {
				if f, ok := slotFile[op.H]; ok && !failedWrite[fmt.Sprintf("/%s@%d", f, op.Off)] {
					end := int(op.Off) + op.N
					if end > len(ref[f]) {
						ref[f] = append(ref[f], make([]byte, end-len(ref[f]))...)
					}
					copy(ref[f][op.Off:], q.Data)
				}
			}
			if op.K == "open" {
				// the client never learnt this handle: nothing after it can be about it
				r.res.Skipped = "invalid-program"
				return
			}
			continue
		}
		p := wc.replies[i]
		switch op.K {
		case "open":
			slotFile[op.H] = op.P
			if p.Type != wtHandle {
				r.fail("C14/open-failed", "open", "open of %q failed: %v", op.P, p)
				return
			}
		case "read", "write", "close":
			if _, ok := slotFile[op.H]; !ok {
				// not a program this oracle is defined for (e.g. a shrink candidate that lost its OPEN)
				r.res.Skipped = "invalid-program"
				return
			}
		}
		switch op.K {
		case "read":
			content := vfFill(s.tag^vfHashStr(slotFile[op.H]), 0, c14Size(slotFile[op.H]))
			var want []byte
			if int(op.Off) < len(content) {
				want = content[op.Off:]
				if len(want) > op.N {
					want = want[:op.N]
				}
			}
			if len(want) == 0 {
				if p.Type != wtStatus || p.Code != wsEOF {
					r.fail("C14/pipelined-request-failed", "read", "READ %v sent before the CLOSE of its handle was answered %v, want EOF", q, p)
					return
				}
			} else if p.Type != wtData || !bytes.Equal(p.Data, want) {
				r.fail("C14/pipelined-request-failed", "read", "READ %v sent before the CLOSE of its handle was answered %v (data %x), want data %x", q, p, p.Data, want)
				return
			}
		case "write":
			if failedWrite[fmt.Sprintf("/%s@%d", slotFile[op.H], op.Off)] {
				// the handler refused this one: its failure must come back, nothing is stored, the rest is unaffected
				if p.Type != wtStatus || p.Code != wsFailure {
					r.fail("C14/pipelined-request-failed", "write-refused", "WRITE %v was refused by the handler but answered %v", q, p)
					return
				}
				sim.count("fault.handler.writeat")
				continue
			}
			if p.Type != wtStatus || p.Code != wsOK {
				r.fail("C14/pipelined-request-failed", "write", "WRITE %v sent before the CLOSE of its handle was answered %v, want OK", q, p)
				return
			}
			f := slotFile[op.H]
			end := int(op.Off) + op.N
			if end > len(ref[f]) {
				ref[f] = append(ref[f], make([]byte, end-len(ref[f]))...)
			}
			copy(ref[f][op.Off:], q.Data)
		case "close":
			if p.Type != wtStatus || p.Code != wsOK {
				r.fail("C14/close-failed", "close", "CLOSE %v was answered %v", q, p)
				return
			}
		}
	}
	// final content
	for f, want := range ref {
		var got []byte
		if s.fs != nil {
			got, _ = s.fs.fileData("/" + f)
		} else {
			got, _ = os.ReadFile(s.root + "/" + f)
		}
		if !bytes.Equal(got, want) {
			r.fail("C14/final-content", "content", "file %s differs from the model after the session: got %x want %x", f, vfHead(got), vfHead(want))
			return
		}
	}
	// request server: Close never overlaps a read or write on the same object
	maxInfl := 0
	if s.fs != nil {
		s.fs.mu.Lock()
		for _, o := range s.fs.objs {
			if o.duringCl > 0 {
				r.fail("C14/close-overlaps-transfer", "during", "Close() was called on object %d (%s) while %d ReadAt/WriteAt calls on it were still running", o.id, o.path, o.duringCl)
			}
			if o.afterCls > 0 {
				r.fail("C14/close-overlaps-transfer", "after", "%d ReadAt/WriteAt calls on object %d (%s) started after its Close()", o.afterCls, o.id, o.path)
			}
			if o.kind != "stat" && o.closes != 1 {
				r.fail("C14/close-count", "closes", "object %d (%s) was closed %d times", o.id, o.path, o.closes)
			}
			if o.maxInfl > maxInfl {
				maxInfl = o.maxInfl
			}
		}
		s.fs.mu.Unlock()
	}
	if maxInfl >= 2 {
		sim.count("probe.overlapping_backend_calls")
	}
	s.finish()
	r.res.NonTrivial = len(wc.reqs) >= 5
	_ = fmt.Sprint
}

func c14Size(p string) int {
	for _, f := range vfInitFiles {
		if f.p == p {
			return f.n
		}
	}
	return 0
}

// c14Valid: the oracle assumes reads inside the initial content and writes beyond it.
func c14Valid(sc *vfScenario) bool {
	if !vfValidSessionProgram(sc) {
		return false
	}
	file := map[int]string{}
	for _, op := range sc.Ops {
		switch op.K {
		case "open":
			file[op.H] = op.P
		case "write":
			if op.Off < 200 {
				return false
			}
		case "read":
			if op.N < 1 || int(op.Off)+op.N > c14Size(file[op.H]) {
				return false
			}
		}
	}
	return true
}
