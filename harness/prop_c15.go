//go:build verif

package sftp

// C15 — concurrent single-packet operations are linearizable.

import (
	"fmt"
	"os"
	"sort"
	"time"

	"github.com/anishathalye/porcupine"
)

func init() {
	vfRegister(&vfProp{
		id:       "C15",
		classes:  []string{"os", "os-alloc", "rs", "rs-alloc", "rs-park", "rs-park", "inmem", "big"},
		gen:      c15Gen,
		exec:     c15Exec,
		maxSteps: 60000,
	})
}

func c15Gen(class string, seed uint64, tier string) *vfScenario {
	rng := vfRng(seed, 1)
	sc := &vfScenario{Cfg: map[string]int64{}}
	switch class {
	case "os":
		sc.Cfg["kind"] = 0
	case "os-alloc":
		sc.Cfg["kind"], sc.Cfg["alloc"] = 0, 1
	case "rs":
		sc.Cfg["kind"] = 1
	case "rs-alloc":
		sc.Cfg["kind"], sc.Cfg["alloc"] = 1, 1
	case "rs-park":
		sc.Cfg["kind"], sc.Cfg["parkdata"] = 1, 1
		sc.Cfg["alloc"] = int64(rng.IntN(2))
		sc.Cfg["parkafter"] = int64(rng.IntN(2)) // the backend may also be slow to *return* from a call that has taken effect
	case "inmem":
		sc.Cfg["kind"] = 3 // the package's own in-memory backend
		sc.Cfg["alloc"] = int64(rng.IntN(2))
	}
	sc.Cfg["hopt"] = 1
	if class == "big" {
		// packets above 32 KiB: servers with a raised maximum payload, a client packet size to match, a file of 64 KiB and
		// more; one READ or WRITE is still one packet and must still be one atomic step, wherever inside it a small
		// write of somebody else lands
		sc.Cfg["kind"] = int64(rng.IntN(2))
		if sc.Cfg["kind"] == 1 {
			sc.Cfg["parkdata"] = 1
		}
		sc.Cfg["alloc"] = int64(rng.IntN(2))
		size := 66000 + rng.IntN(4000)
		P := 33000 + rng.IntN(32000)
		sc.Cfg["size0"], sc.Cfg["P"], sc.Cfg["M"] = int64(size), int64(P), 4
		sc.Cfg["maxtx"] = int64(P + rng.IntN(3)*1000)
		sc.Cfg["nofragc"] = 1
		sc.Cfg["ssites"] = int64(1 + rng.IntN(3))
		sc.Cfg["csites"] = int64(rng.IntN(4))
		ntasks := 2 + rng.IntN(2)
		fill := 1
		base := rng.IntN(4)
		marks := []int{base + 32768, base + 16384, base + 32768, base + 8192*(1+rng.IntN(7))} // where small writes land
		for t := 0; t < ntasks; t++ {
			for i, n := 0, 1+rng.IntN(3); i < n; i++ {
				h := rng.IntN(2)
				switch x := rng.IntN(10); {
				case x < 4:
					ln := 32769 + rng.IntN(P-32768)
					sc.Ops = append(sc.Ops, vfOp{K: "readat", T: t, H: h, Off: int64(base), N: ln})
				case x < 8:
					m := marks[rng.IntN(len(marks))]
					off := m - 1 - rng.IntN(3)
					sc.Ops = append(sc.Ops, vfOp{K: "writeat", T: t, H: h, Off: int64(off), N: 2 + rng.IntN(6), B: int64(fill)})
					fill++
				case x < 9:
					ln := 32769 + rng.IntN(P-32768)
					sc.Ops = append(sc.Ops, vfOp{K: "writeat", T: t, H: h, Off: int64(base), N: ln, B: int64(fill)})
					fill++
				default:
					sc.Ops = append(sc.Ops, vfOp{K: "fstat", T: t, H: h})
				}
			}
		}
		return sc
	}
	size := 8 + rng.IntN(57)
	P := []int{4, 8, 16, 64, 100}[rng.IntN(5)]
	sc.Cfg["size0"], sc.Cfg["P"], sc.Cfg["M"] = int64(size), int64(P), 4
	sc.Cfg["ssites"] = int64(1 + rng.IntN(3))
	sc.Cfg["csites"] = int64(rng.IntN(4))
	ntasks := 2 + rng.IntN(3)
	fill := 1
	// a small number of hot regions so that operations really conflict
	hot := []int{rng.IntN(size), rng.IntN(size)}
	for t := 0; t < ntasks; t++ {
		n := 2 + rng.IntN(5)
		for i := 0; i < n; i++ {
			off := hot[rng.IntN(2)] - rng.IntN(3)
			if off < 0 {
				off = 0
			}
			ln := 1 + rng.IntN(P)
			if off+ln > size {
				ln = size - off
			}
			if ln < 1 {
				off, ln = 0, 1
			}
			h := rng.IntN(2)
			switch x := rng.IntN(10); {
			case x < 4:
				sc.Ops = append(sc.Ops, vfOp{K: "readat", T: t, H: h, Off: int64(off), N: ln})
			case x < 8:
				sc.Ops = append(sc.Ops, vfOp{K: "writeat", T: t, H: h, Off: int64(off), N: ln, B: int64(fill)})
				fill++
			case x < 9:
				sc.Ops = append(sc.Ops, vfOp{K: "fstat", T: t, H: h})
			default:
				sc.Ops = append(sc.Ops, vfOp{K: "stat", T: t, P: "f"})
			}
		}
	}
	if rng.IntN(4) == 0 {
		// somebody else lists the directory meanwhile and gives up (its context is cancelled at a moment the scheduler
		// picks); not part of the history, but its late replies must not reach anybody else
		for i, n := 0, 1+rng.IntN(2); i < n; i++ {
			sc.Ops = append(sc.Ops, vfOp{K: "readdirctx", T: 90})
		}
	}
	return sc
}

type c15In struct {
	kind string // "r", "w", "s"
	off  int
	n    int
	data string
}
type c15Out struct {
	data string
	size int
	ok   bool
}

func c15Model() porcupine.Model {
	return porcupine.Model{
		Init: func() interface{} { return "" },
		Step: func(state, input, output interface{}) (bool, interface{}) {
			s := state.(string)
			in := input.(c15In)
			out := output.(c15Out)
			switch in.kind {
			case "r":
				return out.ok && s[in.off:in.off+in.n] == out.data, s
			case "w":
				if !out.ok {
					return false, s
				}
				return true, s[:in.off] + in.data + s[in.off+len(in.data):]
			default:
				return out.ok && out.size == len(s), s
			}
		},
		Equal: func(a, b interface{}) bool { return a.(string) == b.(string) },
		DescribeOperation: func(input, output interface{}) string {
			in, out := input.(c15In), output.(c15Out)
			switch in.kind {
			case "r":
				return fmt.Sprintf("ReadAt(off=%d,n=%d) -> %x", in.off, in.n, out.data)
			case "w":
				return fmt.Sprintf("WriteAt(off=%d, %x)", in.off, in.data)
			}
			return fmt.Sprintf("size -> %d", out.size)
		},
	}
}

func c15Exec(r *vfRun) {
	sc, sim := r.sc, r.sim
	size := int(sc.cfg("size0", 16))
	initial := vfFill(sc.Seed^5, 0, size)
	v, err := vfStartFileSystem(r, initial)
	defer v.cleanup()
	if err != nil {
		r.fail("C15/handshake", "handshake", "handshake failed: %v", err)
		return
	}
	env := &vfClientEnv{sim: sim, prop: "C15", c: v.c, files: map[int]*File{}, tag: sc.Seed}
	setup := []vfOp{{K: "open", P: v.name, H: 0, A: int64(os.O_RDWR)}, {K: "open", P: v.name, H: 1, A: int64(os.O_RDWR)}}
	ok := true
	st := vfSpawnTask(sim, 99, len(setup), func(i int) {
		if res := env.do(setup[i]); res.Err != nil {
			ok = false
		}
	})
	sim.run(st.finished)
	if !st.finished() || !ok {
		if !sim.failed() {
			r.fail("C15/setup", "setup", "open failed")
		}
		return
	}
	byTask := map[int][]vfOp{}
	var tids []int
	for _, op := range sc.Ops {
		// keep every operation inside the extent (the property's proviso), whatever a shrinker did
		if op.K == "readat" || op.K == "writeat" {
			if op.N < 1 || int(op.Off)+op.N > size || op.N > int(sc.cfg("P", 4)) {
				r.res.Skipped = "invalid-program"
				return
			}
		}
		if op.K == "stat" {
			op.P = v.name
		}
		if op.K == "readdirctx" {
			op.P = "/"
			if v.kind == 0 {
				op.P = "."
			}
		}
		if _, seen := byTask[op.T]; !seen {
			tids = append(tids, op.T)
		}
		byTask[op.T] = append(byTask[op.T], op)
	}
	sort.Ints(tids)
	results := map[int][]*vfOpResult{}
	var tasks []*vfTask
	for _, t := range tids {
		t := t
		ops := byTask[t]
		results[t] = make([]*vfOpResult, len(ops))
		tasks = append(tasks, vfSpawnTask(sim, t, len(ops), func(i int) { results[t][i] = env.do(ops[i]) }))
	}
	allDone := func() bool {
		for _, t := range tasks {
			if !t.finished() {
				return false
			}
		}
		return true
	}
	sim.addSource(env.cancelEvents)
	sim.run(allDone)
	if sim.failed() {
		return
	}
	if !allDone() {
		r.fail("C15/call-never-returned", "liveness", "not all operations returned (steps=%d stuck=%v parked=%v)", sim.steps, sim.stuck, sim.parkedKeys())
		return
	}
	// history
	var ops []porcupine.Operation
	// the initial content is the effect of a first write that precedes everything
	ops = append(ops, porcupine.Operation{ClientId: 0, Input: c15In{kind: "init"}, Call: 0, Output: c15Out{ok: true}, Return: 1})
	overlap := 0
	type iv struct{ a, b int }
	var ivs []iv
	for ci, t := range tids {
		for i, res := range results[t] {
			op := res.Op
			if op.K == "readdirctx" {
				continue // cancelled or not: no part of the history
			}
			if res.Err != nil {
				r.fail("C15/operation-failed", op.K, "task %d op %d %+v failed: %v", t, i, op, res.Err)
				return
			}
			var in c15In
			var out c15Out
			switch op.K {
			case "readat":
				in = c15In{kind: "r", off: int(op.Off), n: op.N}
				out = c15Out{data: string(res.Data[:res.N]), ok: res.N == int64(op.N)}
			case "writeat":
				// content is position- and write-dependent (vfFill), so each read is attributable to one write
				in = c15In{kind: "w", off: int(op.Off), data: string(res.Data)}
				out = c15Out{ok: res.N == int64(op.N)}
			default:
				in = c15In{kind: "s"}
				out = c15Out{size: int(res.Size), ok: true}
			}
			call, ret := int64(2*res.Invoke+2), int64(2*res.Return+3)
			ops = append(ops, porcupine.Operation{ClientId: ci + 1, Input: in, Call: call, Output: out, Return: ret})
			for _, o := range ivs {
				if int(call) < o.b && o.a < int(ret) {
					overlap++
				}
			}
			ivs = append(ivs, iv{int(call), int(ret)})
		}
	}
	model := c15Model()
	inner := model.Step
	init0 := string(initial)
	model.Step = func(state, input, output interface{}) (bool, interface{}) {
		if input.(c15In).kind == "init" {
			return true, init0
		}
		return inner(state, input, output)
	}
	res, info := porcupine.CheckOperationsVerbose(model, ops, 20*time.Second)
	switch res {
	case porcupine.Illegal:
		var desc []string
		for _, o := range ops[1:] {
			desc = append(desc, fmt.Sprintf("c%d [%d,%d] %s", o.ClientId, o.Call, o.Return, model.DescribeOperation(o.Input, o.Output)))
		}
		_ = info
		r.fail("C15/not-linearizable", "history", "no sequential order of the %d operations on a %d-byte file explains the results (initial %x): %v", len(ops)-1, size, initial, desc)
		return
	case porcupine.Unknown:
		sim.count("probe.checker_timeout")
		r.res.Skipped = "checker-timeout"
		return
	}
	if overlap > 0 {
		sim.count("probe.overlapping_operations")
	}
	r.res.NonTrivial = overlap > 0
}
