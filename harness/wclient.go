//go:build verif

package sftp

// Wire-level client driving the real servers, and the server instances themselves.

import (
	"fmt"
	"os"
	"path/filepath"
	"sort"
	"strings"
	"sync"
)

// ---------------------------------------------------------------- served trees

var vfTreeCounter int

// vfNewTree returns a fresh fixed-width directory on tmpfs (its length must not vary:
// it travels inside packets).
func vfNewTree() string {
	vfTreeCounter++
	w := os.Getenv("VF_WORKER")
	if w == "" {
		w = "99"
	}
	if len(w) < 2 {
		w = "0" + w
	}
	dir := fmt.Sprintf("/dev/shm/vf/w%s-%07d/r%08d", w[len(w)-2:], os.Getpid()%10000000, vfTreeCounter)
	os.RemoveAll(dir)
	if err := os.MkdirAll(dir, 0o755); err != nil {
		panic(err)
	}
	return dir
}

func vfRemoveTree(dir string) {
	if strings.HasPrefix(dir, "/dev/shm/vf/") {
		// restore permissions so that everything can be removed
		filepath.Walk(dir, func(p string, fi os.FileInfo, err error) error {
			if err == nil && fi.IsDir() {
				os.Chmod(p, 0o755)
			}
			return nil
		})
		os.RemoveAll(dir)
	}
}

// vfSnapshot describes a tree canonically: names, types, modes, sizes, contents, link targets
// and (optionally) mtimes.
func vfSnapshot(root string, withMtime bool) string {
	var lines []string
	filepath.Walk(root, func(p string, fi os.FileInfo, err error) error {
		if err != nil {
			lines = append(lines, fmt.Sprintf("%s ERR %v", p, err))
			return nil
		}
		rel := strings.TrimPrefix(p, root)
		l := fmt.Sprintf("%s %v %d", rel, fi.Mode(), fi.Size())
		if fi.Mode()&os.ModeSymlink != 0 {
			t, _ := os.Readlink(p)
			l += " -> " + t
		} else if fi.Mode().IsRegular() {
			if fi.Size() > 1<<20 {
				// huge sparse files (a write or truncate at an absurd offset): do not read them in
				l += " <large>"
			} else {
				b, _ := os.ReadFile(p)
				l += fmt.Sprintf(" %x", b)
			}
		}
		if fi.IsDir() {
			l = fmt.Sprintf("%s %v", rel, fi.Mode())
		}
		if withMtime {
			l += fmt.Sprintf(" mt=%d", fi.ModTime().UnixNano())
		}
		if st := vfNlink(fi); st != "" {
			l += st
		}
		lines = append(lines, l)
		return nil
	})
	sort.Strings(lines)
	return strings.Join(lines, "\n")
}

// ---------------------------------------------------------------- server instances

type vfServer struct {
	sim      *vfSim
	kind     int // 0 os-backed Server, 1 RequestServer
	end      *vfEnd
	c2s, s2c *vfPipe
	srv      *Server
	rs       *RequestServer
	fs       *sfs
	root     string
	mu       sync.Mutex
	done     bool
	err      error
	alloc    *allocator
}

// vfOptMix (set per run from cfg.optmix) permutes the order in which server options are applied; 0 keeps the fixed order.
var vfOptMix uint64

func vfShuffleOpts[T any](opts []T) []T {
	if vfOptMix == 0 {
		return opts
	}
	for i := len(opts) - 1; i > 0; i-- {
		j := int(vfMix(vfOptMix, uint64(i)) % uint64(i+1))
		opts[i], opts[j] = opts[j], opts[i]
	}
	return opts
}

// Option values are plain values: an application may build its option list once and hand it to every server it creates.
// vfShareOpts (set by runs that have two sessions alive at once) and a share of all other runs use one process-wide
// WithAllocator()/WithRSAllocator() value instead of a fresh one per server.
var vfShareOpts bool
var vfSharedAllocOpt ServerOption
var vfSharedRSAllocOpt RequestServerOption

func vfAllocOpt() ServerOption {
	if vfShareOpts || vfOptMix%4 >= 2 {
		if vfSharedAllocOpt == nil {
			vfSharedAllocOpt = WithAllocator()
		}
		return vfSharedAllocOpt
	}
	return WithAllocator()
}

func vfRSAllocOpt() RequestServerOption {
	if vfShareOpts || vfOptMix%4 >= 2 {
		if vfSharedRSAllocOpt == nil {
			vfSharedRSAllocOpt = WithRSAllocator()
		}
		return vfSharedRSAllocOpt
	}
	return WithRSAllocator()
}

// vfStartServer creates the link and the server (inside the bubble) and starts Serve.
func vfStartServer(sim *vfSim, kind int, alloc bool, fs *sfs, hopt int, root string, readOnly bool, startDir string, maxTx uint32) *vfServer {
	v := &vfServer{sim: sim, kind: kind, fs: fs, root: root}
	v.c2s = sim.newPipe("c2s")
	v.s2c = sim.newPipe("s2c")
	v.end = &vfEnd{r: v.c2s, w: v.s2c, closeBoth: true}
	if kind == 0 {
		var opts []ServerOption
		if alloc {
			opts = append(opts, vfAllocOpt())
		}
		if root != "" {
			opts = append(opts, WithServerWorkingDirectory(root))
		}
		if readOnly {
			opts = append(opts, ReadOnly())
		}
		if maxTx != 0 {
			opts = append(opts, WithMaxTxPacket(maxTx))
		}
		if vfOptMix%2 == 1 {
			opts = append(opts, WindowsRootEnumeratesDrives()) // documented as meaningful on Windows only
		}
		srv, err := NewServer(v.end, vfShuffleOpts(opts)...)
		if err != nil {
			panic(err)
		}
		v.srv = srv
		v.alloc = srv.pktMgr.alloc
		go func() {
			err := srv.Serve()
			v.mu.Lock()
			v.done, v.err = true, err
			v.mu.Unlock()
			// link teardown rule: the application closes the channel when Serve returns
			v.end.Close()
		}()
	} else {
		var opts []RequestServerOption
		if alloc {
			opts = append(opts, vfRSAllocOpt())
		}
		if startDir != "" {
			opts = append(opts, WithStartDirectory(startDir))
		}
		if maxTx != 0 {
			opts = append(opts, WithRSMaxTxPacket(maxTx))
		}
		rs := NewRequestServer(v.end, fs.handlers(hopt), vfShuffleOpts(opts)...)
		v.rs = rs
		v.alloc = rs.pktMgr.alloc
		go func() {
			err := rs.Serve()
			v.mu.Lock()
			v.done, v.err = true, err
			v.mu.Unlock()
			v.end.Close()
		}()
	}
	return v
}

func (v *vfServer) served() (bool, error) {
	v.mu.Lock()
	defer v.mu.Unlock()
	return v.done, v.err
}

// ---------------------------------------------------------------- wire-level client

type vfWireClient struct {
	sim      *vfSim
	c2s, s2c *vfPipe
	mu       sync.Mutex
	ops      []vfOp
	reqs     []*wReq // as sent
	sent     int
	framer   wFramer
	replies  []*wResp
	raw      [][]byte
	parseErr error
	handles  map[int]string // slot -> handle
	slotOf   map[int]int    // request index -> slot it defines
	window   int
	dupIDs   int // if > 0, about one request in dupIDs repeats the id of the request before it
	waitAll  bool // next send must wait until all replies are in
	closed   bool
	halfCls  bool // half-close c2s after the last request
	onSend   func(i int, q *wReq)
	dataTag  uint64
	nextID   uint32
	rawMode  map[int][]byte // request index -> raw bytes to send instead
}

func vfNewWireClient(sim *vfSim, c2s, s2c *vfPipe, ops []vfOp) *vfWireClient {
	w := &vfWireClient{sim: sim, c2s: c2s, s2c: s2c, ops: ops, handles: map[int]string{}, slotOf: map[int]int{}, nextID: 10}
	s2c.tap = w.onBytes
	sim.addSource(w.events)
	return w
}

func (w *vfWireClient) onBytes(b []byte) {
	w.mu.Lock()
	defer w.mu.Unlock()
	for _, f := range w.framer.feed(b) {
		p, err := wParseResp(f)
		if err != nil && w.parseErr == nil {
			w.parseErr = fmt.Errorf("reply %d: %v (% x)", len(w.replies), err, f)
		}
		w.raw = append(w.raw, f)
		w.replies = append(w.replies, p)
		i := len(w.replies) - 1
		if slot, ok := w.slotOf[i]; ok && p != nil && p.Type == wtHandle {
			w.handles[slot] = p.Handle
		}
	}
	if w.framer.bad != nil && w.parseErr == nil {
		w.parseErr = w.framer.bad
	}
}

func (w *vfWireClient) nReplies() int {
	w.mu.Lock()
	defer w.mu.Unlock()
	return len(w.replies)
}

// canSend says whether the next op may go out now.
func (w *vfWireClient) canSend() bool {
	w.mu.Lock()
	defer w.mu.Unlock()
	if w.closed || w.sent >= len(w.ops) {
		return false
	}
	op := w.ops[w.sent]
	out := w.sent - len(w.replies)
	if op.K == "wait" || w.waitAll {
		if out > 0 {
			return false
		}
	}
	if w.window > 0 && out >= w.window {
		return false
	}
	// a request naming a slot needs the reply of the open that defines it
	if vfOpUsesHandle(op.K) && op.H >= 0 {
		for i, s := range w.slotOf {
			if s == op.H && i >= len(w.replies) {
				return false
			}
		}
	}
	return true
}

func vfOpUsesHandle(k string) bool {
	switch k {
	case "close", "read", "write", "fstat", "fsetstat", "readdir", "fsync":
		return true
	}
	return false
}

func (w *vfWireClient) events(add func(string, func())) {
	if w.canSend() {
		add("w:send", w.sendNext)
	} else if w.halfCls {
		w.mu.Lock()
		ok := !w.closed && w.sent >= len(w.ops)
		w.mu.Unlock()
		if ok {
			add("w:halfclose", func() { w.close() })
		}
	}
}

func (w *vfWireClient) close() {
	w.mu.Lock()
	w.closed = true
	w.mu.Unlock()
	w.sim.count("fault.halfclose")
	w.c2s.closeWriter()
}

func (w *vfWireClient) handleFor(slot int) string {
	if slot == -4 {
		// a guess: what the most recent open attempt would have been called by a counting server
		n := 0
		for i := 0; i < w.sent; i++ {
			if k := w.ops[i].K; k == "open" || k == "opendir" {
				n++
			}
		}
		return fmt.Sprint(n)
	}
	if slot == -5 || slot == -6 {
		// another spelling of the number in the most recently issued handle ("01", "+1" for "1")
		last := ""
		for _, p := range w.replies {
			if p != nil && p.Type == wtHandle {
				last = p.Handle
			}
		}
		if last == "" {
			return "bogus5"
		}
		if slot == -5 {
			return "0" + last
		}
		return "+" + last
	}
	if slot < 0 {
		return fmt.Sprintf("bogus%d", -slot)
	}
	if h, ok := w.handles[slot]; ok {
		return h
	}
	return "nohandle"
}

func (w *vfWireClient) sendNext() {
	w.mu.Lock()
	i := w.sent
	op := w.ops[i]
	w.waitAll = false
	if op.K == "wait" {
		// not a request: drop it from the program view
		w.ops = append(w.ops[:i:i], w.ops[i+1:]...)
		w.mu.Unlock()
		return
	}
	id := w.nextID
	if w.dupIDs > 0 && w.sent > 1 && vfMix(w.dataTag^0xd1d, uint64(w.sent))%uint64(w.dupIDs) == 0 {
		id-- // the same request id as the request before (a client that does not keep its ids distinct)
	} else {
		w.nextID++
	}
	q := vfOpToReq(op, id, w.handleFor(op.H), w.dataTag)
	if op.K == "open" || op.K == "opendir" {
		w.slotOf[i] = op.H
	}
	w.reqs = append(w.reqs, q)
	w.sent++
	w.mu.Unlock()
	if w.onSend != nil {
		w.onSend(i, q)
	}
	b := q.encode()
	w.mu.Lock()
	raw, isRaw := w.rawMode[i]
	w.mu.Unlock()
	if isRaw {
		b = raw
		w.sim.tracef("wire client sends raw bytes for %v: % x", q, b)
	} else {
		w.sim.tracef("wire client sends %v (%d bytes)", q, len(b))
	}
	w.c2s.Write(b)
}

// vfFill is position-dependent content: a byte landing at the wrong offset is visible.
func vfFill(tag uint64, off int64, n int) []byte {
	b := make([]byte, n)
	for i := range b {
		x := vfMix(tag, uint64(off+int64(i)))
		b[i] = byte(x>>8) | 1
	}
	return b
}

// vfOpToReq turns a program step into a request.
func vfOpToReq(op vfOp, id uint32, handle string, tag uint64) *wReq {
	q := &wReq{ID: id, Path: op.P, Path2: op.P2, Handle: handle}
	switch op.K {
	case "init":
		q.Type = wtInit
		q.Version = uint32(op.A)
	case "open":
		q.Type = wtOpen
		q.Pflags = uint32(op.A)
		q.Attrs = vfAttrsFromOp(op)
	case "opendir":
		q.Type = wtOpendir
	case "close":
		q.Type = wtClose
	case "read":
		q.Type = wtRead
		q.Offset = uint64(op.Off)
		q.Len = uint32(op.N)
	case "write":
		q.Type = wtWrite
		q.Offset = uint64(op.Off)
		q.Data = vfFill(tag^uint64(op.B), op.Off, op.N)
	case "fstat":
		q.Type = wtFstat
	case "fsetstat":
		q.Type = wtFsetstat
		q.Attrs = vfAttrsFromOp(op)
	case "readdir":
		q.Type = wtReaddir
	case "stat":
		q.Type = wtStat
	case "lstat":
		q.Type = wtLstat
	case "setstat":
		q.Type = wtSetstat
		q.Attrs = vfAttrsFromOp(op)
	case "mkdir":
		q.Type = wtMkdir
		q.Attrs = vfAttrsFromOp(op)
	case "rmdir":
		q.Type = wtRmdir
	case "remove":
		q.Type = wtRemove
	case "rename":
		q.Type = wtRename
	case "symlink":
		q.Type = wtSymlink // P = linkpath, P2 = target
	case "readlink":
		q.Type = wtReadlink
	case "realpath":
		q.Type = wtRealpath
	case "statvfs":
		q.Type = wtExtended
		q.ExtName = "statvfs@openssh.com"
	case "posixrename":
		q.Type = wtExtended
		q.ExtName = "posix-rename@openssh.com"
	case "hardlink":
		q.Type = wtExtended
		q.ExtName = "hardlink@openssh.com"
	case "fsync":
		q.Type = wtExtended
		q.ExtName = "fsync@openssh.com"
	case "extunknown":
		q.Type = wtExtended
		q.ExtName = op.S
		q.ExtData = (&wbuf{}).strb(op.P)
	default:
		panic("vfOpToReq: unknown op " + op.K)
	}
	return q
}

func (w *wbuf) strb(s string) []byte { w.str(s); return w.b }

// attribute block from an op: A (for open: pflags) is not used here; B = attr flags,
// N = value seed for setstat-like ops.
func vfAttrsFromOp(op vfOp) wAttrs {
	a := wAttrs{Flags: uint32(op.B)}
	if op.K == "open" {
		if a.Flags&waPerm != 0 {
			a.Perm = uint32(op.N) & 0o7777
		}
		if a.Flags&waSize != 0 {
			a.Size = uint64(op.Off)
		}
		if a.Flags&waUIDs != 0 {
			a.UID, a.GID = 0, 0
		}
		if a.Flags&waTimes != 0 {
			a.Atime, a.Mtime = 1000000000, 1000000001
		}
		return a
	}
	if a.Flags&waSize != 0 {
		a.Size = uint64(op.Off)
	}
	if a.Flags&waUIDs != 0 {
		a.UID, a.GID = uint32(op.A>>16)&0xffff, uint32(op.A)&0xffff
	}
	if a.Flags&waPerm != 0 {
		a.Perm = uint32(op.N) & 0o7777
	}
	if a.Flags&waTimes != 0 {
		a.Atime, a.Mtime = 1000000000+uint32(op.N), 1100000000+uint32(op.N)
	}
	return a
}
