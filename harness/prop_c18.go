//go:build verif

package sftp

// C18 — the server buffer allocator is invisible.

import (
	"bytes"
	"fmt"
	"reflect"
	"strings"
)

func init() {
	vfRegister(&vfProp{
		noDouble: true,
		id:       "C18",
		classes:  c18Classes(),
		gen:      c18Gen,
		exec:     c18Exec,
		valid:    vfValidSessionProgram,
		maxSteps: 60000,
	})
}

// c18Classes: the five ordinary classes four times each, the two expensive ones (large frames, deep pipelines) rarely.
func c18Classes() []string {
	var out []string
	for i := 0; i < 4; i++ {
		out = append(out, "os-prog", "rs-prog", "os-burst", "rs-burst", "rs-burst-park")
	}
	return append(out, "big", "big", "deep")
}

func c18Gen(class string, seed uint64, tier string) *vfScenario {
	rng := vfRng(seed, 1)
	var sc *vfScenario
	switch class {
	case "os-prog", "rs-prog":
		sc = &vfScenario{Cfg: map[string]int64{}}
		if class == "rs-prog" {
			sc.Cfg["kind"] = 1
			sc.Cfg["hopt"] = int64([]int{1, 1 | 2 | 4, 1 | 128}[rng.IntN(3)])
		}
		sc.Ops = vfGenProgram(rng, int(sc.Cfg["kind"]), 1+rng.IntN(40))
		sc.Cfg["sites"] = int64(1 + rng.IntN(3))
		if class == "os-prog" && rng.IntN(4) == 0 {
			sc.Cfg["readonly"] = 1 // refusals take another path through the worker
		}
	case "deep":
		// one READ whose completion the scheduler may hold back, and far more than a hundred requests pipelined behind
		// it: their replies (and the buffers they occupy) pile up in the packet manager
		sc = &vfScenario{Cfg: map[string]int64{}}
		sc.Cfg["kind"] = int64(rng.IntN(2))
		sc.Cfg["sites"] = 1 | int64(2*rng.IntN(2))
		name := "f0"
		if sc.Cfg["kind"] == 1 {
			sc.Cfg["parkdata"], sc.Cfg["hopt"] = 1, 1
			name = "/f0"
		}
		sc.Ops = []vfOp{{K: "init", A: 3}, {K: "open", P: name, A: 1, H: 0}, {K: "wait"}, {K: "read", H: 0, Off: 0, N: 20}}
		depth := 125 + rng.IntN(20)
		if rng.IntN(3) == 0 {
			depth = 250 + rng.IntN(90) // beyond 256 as well: nothing bounds the queue of replies waiting for an earlier one
		}
		reads := rng.IntN(2) == 0 // the requests behind it: STATs, or STATs and READs of other parts of the file
		for i, n := 0, depth; i < n; i++ {
			if reads && i%3 != 0 {
				sc.Ops = append(sc.Ops, vfOp{K: "read", H: 0, Off: int64((i * 7) % 90), N: 3 + i%9})
				continue
			}
			sc.Ops = append(sc.Ops, vfOp{K: "stat", P: name})
		}
		sc.Cfg["holdread"] = int64(len(sc.Ops) - 4 - rng.IntN(12)) // how many of them are handled before the READ may go on
		sc.Ops = append(sc.Ops, vfOp{K: "wait"}, vfOp{K: "close", H: 0})
		return sc
	case "big":
		// large maxTxPacket, a large file, reads around the allocator's page size (see C02 class big)
		sc = c02Gen("big", seed, tier)
		delete(sc.Cfg, "alloc")
		return sc
	default:
		sc = c14Gen(map[string]string{"os-burst": "os", "rs-burst": "rs", "rs-burst-park": "rs-park"}[class], seed, tier)
	}
	delete(sc.Cfg, "alloc")
	if rng.IntN(2) == 0 {
		sc.Cfg["idbase"] = int64(1 + rng.IntN(4))
	}
	if rng.IntN(4) == 0 {
		// another session of the same process (its own server, allocator on) has served a few requests
		// and sits idle while the session under test runs
		sc.Cfg["companion"] = 1
	}
	if rng.IntN(4) == 0 {
		sc.Cfg["maxtx"] = int64(32768 + rng.IntN(200000))
	}
	return sc
}

// c18PageTable checks the allocator's bookkeeping (white box). It reads the tables by reflection, so that a change of
// their shape (a map becoming an array, say) cannot stop the check from building: "used" may be any map, slice or array
// whose elements are [][]byte (keyed or indexed by something derived from the order id), "available" a [][]byte.
func c18PageTable(a *allocator) string {
	a.Lock()
	defer a.Unlock()
	av := reflect.ValueOf(a).Elem()
	used, avail := av.FieldByName("used"), av.FieldByName("available")
	if !used.IsValid() || !avail.IsValid() {
		return "" // nothing by these names any more: the invariants on the tables cannot be evaluated (counted by the caller)
	}
	owner := map[uintptr]string{}
	var dupMsg string
	visit := func(key string, pages reflect.Value) {
		if pages.Kind() != reflect.Slice {
			return
		}
		for i := 0; i < pages.Len(); i++ {
			pg := pages.Index(i)
			if pg.Kind() != reflect.Slice || pg.Cap() == 0 {
				continue
			}
			k := pg.Pointer()
			if o, dup := owner[k]; dup && dupMsg == "" {
				dupMsg = fmt.Sprintf("one page is lent to two requests at once (order ids %s and %s)", o, key)
			}
			owner[k] = key
		}
	}
	switch used.Kind() {
	case reflect.Map:
		it := used.MapRange()
		for it.Next() {
			visit(fmt.Sprint(it.Key()), it.Value())
		}
	case reflect.Slice, reflect.Array:
		for i := 0; i < used.Len(); i++ {
			visit(fmt.Sprintf("slot %d", i), used.Index(i))
		}
	}
	if dupMsg != "" {
		return dupMsg
	}
	seen := map[uintptr]bool{}
	if avail.Kind() == reflect.Slice {
		for i := 0; i < avail.Len(); i++ {
			pg := avail.Index(i)
			if pg.Kind() != reflect.Slice || pg.Cap() == 0 {
				continue
			}
			k := pg.Pointer()
			if o, ok := owner[k]; ok {
				return fmt.Sprintf("a page is in use by order id %s and on the free list at the same time", o)
			}
			if seen[k] {
				return "a page is on the free list twice"
			}
			seen[k] = true
		}
	}
	return ""
}

type c18Outcome struct {
	stream  []byte
	nreq    int
	nrep    int
	steps   int
	shash   uint64
	tapeOut []int
}

func c18RunOne(r *vfRun, sim *vfSim, alloc bool) *c18Outcome {
	sc := r.sc.clone()
	if alloc {
		sc.Cfg["alloc"] = 1
	}
	// The two runs are compared byte for byte, so every order the servers' workers can finish in has to be the
	// scheduler's: without the worker sites a request sent right behind the CLOSE of its handle is served by a read/write
	// worker racing the command worker that closes - both outcomes are legal, and the Go runtime would pick.
	sc.Cfg["sites"] = sc.cfg("sites", 3) | 1
	rr := &vfRun{sc: sc, sim: sim, t: r.t, res: r.res}
	var comp *vfSession
	if sc.cfg("companion", 0) != 0 {
		// both servers are configured from the same option values (an option list built once, used for every connection)
		vfShareOpts = true
		defer func() { vfShareOpts = false }()
		csc := &vfScenario{Prop: sc.Prop, Class: sc.Class, Seed: sc.Seed ^ 0x77, Cfg: map[string]int64{"kind": sc.cfg("kind", 0), "alloc": 1, "sites": sc.cfg("sites", 3), "hopt": 1}}
		name := "/f0"
		if csc.Cfg["kind"] == 0 {
			name = "f0"
		}
		cops := []vfOp{{K: "open", P: name, A: 1, H: 0}, {K: "read", H: 0, N: 50}, {K: "read", H: 0, Off: 50, N: 100}, {K: "fstat", H: 0}, {K: "close", H: 0}, {K: "stat", P: name}}
		comp = vfStartSession(&vfRun{sc: csc, sim: sim, t: r.t, res: r.res}, cops)
		defer comp.cleanup()
		sim.run(nil)
		if sim.failed() {
			return nil
		}
		if comp.wc.nReplies() != len(comp.wc.reqs) || comp.wc.nReplies() < len(cops) {
			sim.fail("C18/setup", "companion", "the companion session got %d replies for %d requests", comp.wc.nReplies(), len(comp.wc.reqs))
			return nil
		}
		sim.count("probe.companion_session")
	}
	if hold := int(sc.cfg("holdread", 0)); hold > 0 {
		// the READ (order id 3: INIT, OPEN, READ) stays in its worker until that many later requests have been handled
		// (or nothing else is left to do)
		site := "srv.worker"
		if sc.cfg("kind", 0) == 1 {
			site = "rs.worker"
		}
		sim.holdKey = fmt.Sprintf("h:%s:%010d", site, 3)
		handled := 0
		prev := sim.onStep
		sim.onStep = func(key string) {
			if strings.HasPrefix(key, "h:"+site+":") && key != sim.holdKey {
				handled++
			}
			if prev != nil {
				prev(key)
			}
		}
		sim.holdFn = func() bool { return handled >= hold || len(sim.collect()) <= 1 }
	}
	s := vfStartSession(rr, sc.Ops)
	defer s.cleanup()
	a := s.srv.alloc
	if alloc && a == nil {
		sim.fail("C18/setup", "setup", "allocator was requested but is not installed")
		return nil
	}
	if a != nil {
		sim.inv = func() {
			if m := c18PageTable(a); m != "" {
				sim.fail("C18/page-table", "invariant", "%s", m)
			}
		}
		// when reply number n is written, the pages of request n must still be lent to it
		inner := s.srv.s2c.tap
		s.srv.s2c.tap = func(b []byte) {
			idx := s.wc.nReplies()
			if !a.isRequestOrderIDUsed(uint32(idx + 1)) {
				sim.fail("C18/released-before-reply-written", "early-release", "reply %d is being written but the buffers of its request (order id %d) have already been released", idx, idx+1)
			}
			inner(b)
		}
	}
	sim.run(nil)
	if sim.failed() {
		return nil
	}
	out := &c18Outcome{nreq: len(s.wc.reqs), nrep: s.wc.nReplies()}
	if a != nil {
		sim.inv()
		// all replies out and the server idle: only the page taken for the next packet may be in use
		used := a.countUsedPages()
		next := s.srv.pktMgr().getNextOrderID()
		if used > 1 || (used == 1 && !a.isRequestOrderIDUsed(next)) {
			sim.fail("C18/buffers-still-in-use", "leak", "all %d replies are out and the server is idle, but %d pages are still marked in use (next order id %d, in use: %v)", out.nrep, used, next, a.isRequestOrderIDUsed(next))
			return nil
		}
		if a.countAvailablePages() > 0 {
			sim.count("probe.page_reused_possible")
		}
	}
	s.finish()
	if a != nil {
		if a.countUsedPages() != 0 || a.countAvailablePages() != 0 {
			sim.fail("C18/not-freed", "free", "after Serve returned the allocator still holds %d used and %d free pages", a.countUsedPages(), a.countAvailablePages())
			return nil
		}
	}
	if comp != nil {
		// the idle companion is untouched: exactly the page for its next packet is lent, and it can still be served
		if ca := comp.srv.alloc; ca != nil {
			if used, next := ca.countUsedPages(), comp.srv.pktMgr().getNextOrderID(); used != 1 || !ca.isRequestOrderIDUsed(next) {
				sim.fail("C18/other-session-disturbed", "companion", "after the session under test ended, the idle companion session's allocator has %d pages in use (its next order id %d in use: %v); want exactly the one for its next packet", used, next, ca.isRequestOrderIDUsed(next))
				return nil
			}
		}
		comp.finish()
	}
	out.stream = append([]byte(nil), s.srv.s2c.buf...)
	if s.root != "" {
		out.stream = c18Normalise(out.stream, s.root)
	}
	out.steps = sim.steps
	out.shash = sim.shash
	return out
}

func (v *vfServer) pktMgr() *packetManager {
	if v.srv != nil {
		return v.srv.pktMgr
	}
	return v.rs.pktMgr
}

func c18Exec(r *vfRun) {
	simA := r.sim
	mark := len(simA.tape.out)
	a := c18RunOne(r, simA, false)
	if a == nil {
		return
	}
	// second run: same program, same choices, allocator on
	simA.drain()
	simA.quiesce()
	tape := &vfTape{rec: append([]int(nil), simA.tape.out[mark:]...), replay: true}
	simB := vfNewSim(tape, simA.maxSteps)
	simB.pct = simA.pct
	simB.traceOn = simA.traceOn
	b := c18RunOne(r, simB, true)
	// hand the second simulation's findings to the first (the one the runner reads)
	for k, v := range simB.stats {
		simA.stats[k] += v
	}
	if simB.traceOn {
		simA.trace = append(simA.trace, "---- second run, allocator on ----")
		simA.trace = append(simA.trace, simB.trace...)
	}
	simA.hashStr(&simA.hash, fmt.Sprint(simB.hash))
	if simB.viol != nil {
		simA.viol = simB.viol
	}
	simB.drain()
	simB.quiesce()
	vfCur.Store(simA)
	if b == nil || simA.viol != nil {
		return
	}
	if a.shash != b.shash {
		r.fail("C18/schedule-diverged", "schedule", "with the allocator on, the same choices led through different events (steps %d vs %d): the allocator changed which goroutines were ready", a.steps, b.steps)
		return
	}
	if !bytes.Equal(a.stream, b.stream) {
		i := 0
		for i < len(a.stream) && i < len(b.stream) && a.stream[i] == b.stream[i] {
			i++
		}
		r.fail("C18/responses-differ", "stream", "the response streams differ at byte %d (lengths %d without, %d with the allocator); around it: %x vs %x", i, len(a.stream), len(b.stream), c18Around(a.stream, i), c18Around(b.stream, i))
		return
	}
	r.res.NonTrivial = a.nreq >= 5
}

func c18Around(b []byte, i int) []byte {
	lo, hi := i-8, i+16
	if lo < 0 {
		lo = 0
	}
	if hi > len(b) {
		hi = len(b)
	}
	return b[lo:hi]
}

// c18Normalise removes what legitimately differs between two runs on two fresh tmpfs trees:
// the tree's own name, kernel timestamps (and the date inside longnames), statvfs counters.
func c18Normalise(stream []byte, root string) []byte {
	fr := wFramer{max: 4 << 20} // a server with a raised maxTxPacket sends frames beyond the default limit
	var out []byte
	for _, f := range fr.feed(stream) {
		p, err := wParseResp(f)
		if err != nil {
			out = append(out, wFrame(f)...)
			continue
		}
		switch p.Type {
		case wtAttrs:
			p.Attrs.Atime, p.Attrs.Mtime = 0, 0
		case wtName:
			for i := range p.Names {
				p.Names[i].Attrs.Atime, p.Names[i].Attrs.Mtime = 0, 0
				if len(p.Names) > 1 || p.Names[i].Long != p.Names[i].Name {
					p.Names[i].Long = ""
				}
			}
		case wtExtReply:
			p.Raw = nil
		}
		out = append(out, p.encode()...)
	}
	out = append(out, fr.buf...)
	return bytes.ReplaceAll(out, []byte(root), bytes.Repeat([]byte("R"), len(root)))
}
