//go:build verif

package sftp

// C18 — the server buffer allocator is invisible.

import (
	"bytes"
	"fmt"
	"unsafe"
)

func init() {
	vfRegister(&vfProp{
		id:       "C18",
		classes:  []string{"os-prog", "rs-prog", "os-burst", "rs-burst", "rs-burst-park", "os-prog", "rs-prog", "os-burst", "rs-burst", "rs-burst-park", "big"},
		gen:      c18Gen,
		exec:     c18Exec,
		valid:    vfValidSessionProgram,
		maxSteps: 60000,
	})
}

func c18Gen(class string, seed uint64, tier string) *vfScenario {
	rng := vfRng(seed, 1)
	var sc *vfScenario
	switch class {
	case "os-prog", "rs-prog":
		sc = &vfScenario{Cfg: map[string]int64{}}
		if class == "rs-prog" {
			sc.Cfg["kind"] = 1
			sc.Cfg["hopt"] = int64([]int{1, 1 | 2 | 4, 1 | 128}[rng.IntN(3)])
		}
		sc.Ops = vfGenProgram(rng, int(sc.Cfg["kind"]), 1+rng.IntN(40))
		sc.Cfg["sites"] = int64(1 + rng.IntN(3))
	case "big":
		// large maxTxPacket, a large file, reads around the allocator's page size (see C02 class big)
		sc = c02Gen("big", seed, tier)
		delete(sc.Cfg, "alloc")
		return sc
	default:
		sc = c14Gen(map[string]string{"os-burst": "os", "rs-burst": "rs", "rs-burst-park": "rs-park"}[class], seed, tier)
	}
	delete(sc.Cfg, "alloc")
	if rng.IntN(4) == 0 {
		// another session of the same process (its own server, allocator on) has served a few requests
		// and sits idle while the session under test runs
		sc.Cfg["companion"] = 1
	}
	if rng.IntN(4) == 0 {
		sc.Cfg["maxtx"] = int64(32768 + rng.IntN(200000))
	}
	return sc
}

// c18PageTable checks the allocator's bookkeeping (white box).
func c18PageTable(a *allocator) string {
	a.Lock()
	defer a.Unlock()
	owner := map[uintptr]uint32{}
	for oid, pages := range a.used {
		for _, p := range pages {
			if cap(p) == 0 {
				continue
			}
			k := uintptr(unsafe.Pointer(unsafe.SliceData(p[:1])))
			if o, dup := owner[k]; dup {
				return fmt.Sprintf("one page is lent to two requests at once (order ids %d and %d)", o, oid)
			}
			owner[k] = oid
		}
	}
	seen := map[uintptr]bool{}
	for _, p := range a.available {
		if cap(p) == 0 {
			continue
		}
		k := uintptr(unsafe.Pointer(unsafe.SliceData(p[:1])))
		if o, ok := owner[k]; ok {
			return fmt.Sprintf("a page is in use by order id %d and on the free list at the same time", o)
		}
		if seen[k] {
			return "a page is on the free list twice"
		}
		seen[k] = true
	}
	return ""
}

type c18Outcome struct {
	stream  []byte
	nreq    int
	nrep    int
	steps   int
	shash   uint64
	tapeOut []int
}

func c18RunOne(r *vfRun, sim *vfSim, alloc bool) *c18Outcome {
	sc := r.sc.clone()
	if alloc {
		sc.Cfg["alloc"] = 1
	}
	rr := &vfRun{sc: sc, sim: sim, t: r.t, res: r.res}
	var comp *vfSession
	if sc.cfg("companion", 0) != 0 {
		csc := &vfScenario{Prop: sc.Prop, Class: sc.Class, Seed: sc.Seed ^ 0x77, Cfg: map[string]int64{"kind": sc.cfg("kind", 0), "alloc": 1, "sites": sc.cfg("sites", 3), "hopt": 1}}
		name := "/f0"
		if csc.Cfg["kind"] == 0 {
			name = "f0"
		}
		cops := []vfOp{{K: "open", P: name, A: 1, H: 0}, {K: "read", H: 0, N: 50}, {K: "read", H: 0, Off: 50, N: 100}, {K: "fstat", H: 0}, {K: "close", H: 0}, {K: "stat", P: name}}
		comp = vfStartSession(&vfRun{sc: csc, sim: sim, t: r.t, res: r.res}, cops)
		defer comp.cleanup()
		sim.run(nil)
		if sim.failed() {
			return nil
		}
		if comp.wc.nReplies() != len(comp.wc.reqs) || comp.wc.nReplies() < len(cops) {
			sim.fail("C18/setup", "companion", "the companion session got %d replies for %d requests", comp.wc.nReplies(), len(comp.wc.reqs))
			return nil
		}
		sim.count("probe.companion_session")
	}
	s := vfStartSession(rr, sc.Ops)
	defer s.cleanup()
	a := s.srv.alloc
	if alloc && a == nil {
		sim.fail("C18/setup", "setup", "allocator was requested but is not installed")
		return nil
	}
	if a != nil {
		sim.inv = func() {
			if m := c18PageTable(a); m != "" {
				sim.fail("C18/page-table", "invariant", "%s", m)
			}
		}
		// when reply number n is written, the pages of request n must still be lent to it
		inner := s.srv.s2c.tap
		s.srv.s2c.tap = func(b []byte) {
			idx := s.wc.nReplies()
			if !a.isRequestOrderIDUsed(uint32(idx + 1)) {
				sim.fail("C18/released-before-reply-written", "early-release", "reply %d is being written but the buffers of its request (order id %d) have already been released", idx, idx+1)
			}
			inner(b)
		}
	}
	sim.run(nil)
	if sim.failed() {
		return nil
	}
	out := &c18Outcome{nreq: len(s.wc.reqs), nrep: s.wc.nReplies()}
	if a != nil {
		sim.inv()
		// all replies out and the server idle: only the page taken for the next packet may be in use
		used := a.countUsedPages()
		next := s.srv.pktMgr().getNextOrderID()
		if used > 1 || (used == 1 && !a.isRequestOrderIDUsed(next)) {
			sim.fail("C18/buffers-still-in-use", "leak", "all %d replies are out and the server is idle, but %d pages are still marked in use (next order id %d, in use: %v)", out.nrep, used, next, a.isRequestOrderIDUsed(next))
			return nil
		}
		if a.countAvailablePages() > 0 {
			sim.count("probe.page_reused_possible")
		}
	}
	s.finish()
	if a != nil {
		if a.countUsedPages() != 0 || a.countAvailablePages() != 0 {
			sim.fail("C18/not-freed", "free", "after Serve returned the allocator still holds %d used and %d free pages", a.countUsedPages(), a.countAvailablePages())
			return nil
		}
	}
	if comp != nil {
		// the idle companion is untouched: exactly the page for its next packet is lent, and it can still be served
		if ca := comp.srv.alloc; ca != nil {
			if used, next := ca.countUsedPages(), comp.srv.pktMgr().getNextOrderID(); used != 1 || !ca.isRequestOrderIDUsed(next) {
				sim.fail("C18/other-session-disturbed", "companion", "after the session under test ended, the idle companion session's allocator has %d pages in use (its next order id %d in use: %v); want exactly the one for its next packet", used, next, ca.isRequestOrderIDUsed(next))
				return nil
			}
		}
		comp.finish()
	}
	out.stream = append([]byte(nil), s.srv.s2c.buf...)
	if s.root != "" {
		out.stream = c18Normalise(out.stream, s.root)
	}
	out.steps = sim.steps
	out.shash = sim.shash
	return out
}

func (v *vfServer) pktMgr() *packetManager {
	if v.srv != nil {
		return v.srv.pktMgr
	}
	return v.rs.pktMgr
}

func c18Exec(r *vfRun) {
	simA := r.sim
	mark := len(simA.tape.out)
	a := c18RunOne(r, simA, false)
	if a == nil {
		return
	}
	// second run: same program, same choices, allocator on
	simA.drain()
	simA.quiesce()
	tape := &vfTape{rec: append([]int(nil), simA.tape.out[mark:]...), replay: true}
	simB := vfNewSim(tape, simA.maxSteps)
	simB.pct = simA.pct
	simB.traceOn = simA.traceOn
	b := c18RunOne(r, simB, true)
	// hand the second simulation's findings to the first (the one the runner reads)
	for k, v := range simB.stats {
		simA.stats[k] += v
	}
	if simB.traceOn {
		simA.trace = append(simA.trace, "---- second run, allocator on ----")
		simA.trace = append(simA.trace, simB.trace...)
	}
	simA.hashStr(&simA.hash, fmt.Sprint(simB.hash))
	if simB.viol != nil {
		simA.viol = simB.viol
	}
	simB.drain()
	simB.quiesce()
	vfCur.Store(simA)
	if b == nil || simA.viol != nil {
		return
	}
	if a.shash != b.shash {
		r.fail("C18/schedule-diverged", "schedule", "with the allocator on, the same choices led through different events (steps %d vs %d): the allocator changed which goroutines were ready", a.steps, b.steps)
		return
	}
	if !bytes.Equal(a.stream, b.stream) {
		i := 0
		for i < len(a.stream) && i < len(b.stream) && a.stream[i] == b.stream[i] {
			i++
		}
		r.fail("C18/responses-differ", "stream", "the response streams differ at byte %d (lengths %d without, %d with the allocator); around it: %x vs %x", i, len(a.stream), len(b.stream), c18Around(a.stream, i), c18Around(b.stream, i))
		return
	}
	r.res.NonTrivial = a.nreq >= 5
}

func c18Around(b []byte, i int) []byte {
	lo, hi := i-8, i+16
	if lo < 0 {
		lo = 0
	}
	if hi > len(b) {
		hi = len(b)
	}
	return b[lo:hi]
}

// c18Normalise removes what legitimately differs between two runs on two fresh tmpfs trees:
// the tree's own name, kernel timestamps (and the date inside longnames), statvfs counters.
func c18Normalise(stream []byte, root string) []byte {
	fr := wFramer{max: 4 << 20} // a server with a raised maxTxPacket sends frames beyond the default limit
	var out []byte
	for _, f := range fr.feed(stream) {
		p, err := wParseResp(f)
		if err != nil {
			out = append(out, wFrame(f)...)
			continue
		}
		switch p.Type {
		case wtAttrs:
			p.Attrs.Atime, p.Attrs.Mtime = 0, 0
		case wtName:
			for i := range p.Names {
				p.Names[i].Attrs.Atime, p.Names[i].Attrs.Mtime = 0, 0
				if len(p.Names) > 1 || p.Names[i].Long != p.Names[i].Name {
					p.Names[i].Long = ""
				}
			}
		case wtExtReply:
			p.Raw = nil
		}
		out = append(out, p.encode()...)
	}
	out = append(out, fr.buf...)
	return bytes.ReplaceAll(out, []byte(root), bytes.Repeat([]byte("R"), len(root)))
}
