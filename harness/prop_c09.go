//go:build verif

package sftp

// C09 — a read-only server never changes the file system.

import (
	"bytes"
	"fmt"
	"math/rand/v2"
	"strings"
)

func init() {
	vfRegister(&vfProp{
		noDouble:  true,
		id:        "C09",
		classes:   []string{"seeded", "seeded-alloc"},
		gen:       c09Gen,
		exec:      c09Exec,
		enumerate: c09Enumerate,
		valid:     vfValidSessionProgram,
		maxSteps:  40000,
	})
}

var c09Targets = []string{"f0", "nx", "d", "l0", "ldang", "ld", "d/a", "new0"}

func c09RandOp(rng *rand.Rand, slots *int, open *[]int) vfOp {
	tgt := func() string { return c09Targets[rng.IntN(len(c09Targets))] }
	use := func() int {
		if len(*open) > 0 && rng.IntN(5) > 0 {
			return (*open)[rng.IntN(len(*open))]
		}
		return -1
	}
	switch x := rng.IntN(100); {
	case x < 25:
		s := *slots
		*slots++
		*open = append(*open, s)
		return vfOp{K: "open", P: tgt(), A: int64(rng.IntN(64)), B: int64([]int{0, 0, waPerm, waSize, waPerm | waTimes}[rng.IntN(5)]), N: 0o600, H: s}
	case x < 30:
		s := *slots
		*slots++
		*open = append(*open, s)
		return vfOp{K: "opendir", P: tgt(), H: s}
	case x < 40:
		return vfOp{K: "write", H: use(), Off: int64(rng.IntN(50)), N: 1 + rng.IntN(8), B: 7}
	case x < 46:
		return vfOp{K: "read", H: use(), Off: int64(rng.IntN(50)), N: 1 + rng.IntN(8)}
	case x < 54:
		return vfOp{K: "fsetstat", H: use(), B: int64(rng.IntN(16)), Off: int64(rng.IntN(50)), N: 0o600 + rng.IntN(64), A: 0}
	case x < 62:
		return vfOp{K: "setstat", P: tgt(), B: int64(rng.IntN(16)), Off: int64(rng.IntN(50)), N: 0o600 + rng.IntN(64), A: 0}
	case x < 66:
		return vfOp{K: "remove", P: tgt()}
	case x < 70:
		return vfOp{K: "rmdir", P: tgt()}
	case x < 74:
		return vfOp{K: "mkdir", P: tgt()}
	case x < 79:
		return vfOp{K: "rename", P: tgt(), P2: tgt()}
	case x < 84:
		return vfOp{K: "posixrename", P: tgt(), P2: tgt()}
	case x < 88:
		return vfOp{K: "hardlink", P: tgt(), P2: tgt()}
	case x < 92:
		return vfOp{K: "symlink", P: tgt(), P2: tgt()}
	case x < 94:
		return vfOp{K: "close", H: use()}
	case x < 95:
		return vfOp{K: "extunknown", S: []string{"fsync@openssh.com", "foo@bar", "copy-data"}[rng.IntN(3)], P: "f0"}
	case x < 96:
		return vfOp{K: "stat", P: tgt()}
	case x < 97:
		return vfOp{K: "lstat", P: tgt()}
	case x < 98:
		return vfOp{K: "readlink", P: tgt()}
	case x < 99:
		return vfOp{K: "readdir", H: use()}
	default:
		return vfOp{K: "statvfs", P: tgt()}
	}
}

func c09Gen(class string, seed uint64, tier string) *vfScenario {
	rng := vfRng(seed, 1)
	sc := &vfScenario{Cfg: map[string]int64{"kind": 0, "window": 1}}
	if class == "seeded-alloc" {
		sc.Cfg["alloc"] = 1
	}
	if rng.IntN(3) == 0 {
		sc.Cfg["window"] = int64(2 + rng.IntN(8)) // pipelined: tree invariant and denial table only
	}
	sc.Cfg["sites"] = int64(1 + rng.IntN(3))
	if rng.IntN(4) == 0 {
		sc.Cfg["extconf"] = int64(1 + rng.IntN(8))
	}
	sc.Ops = []vfOp{{K: "init", A: 3}}
	slots := 0
	var open []int
	n := 1 + rng.IntN(8)
	for i := 0; i < n; i++ {
		sc.Ops = append(sc.Ops, c09RandOp(rng, &slots, &open))
	}
	return sc
}

// c09Enumerate: the small tables in full.
func c09Enumerate(tier string, base uint64, emit func(*vfScenario)) {
	n := 0
	mk := func(ops ...vfOp) {
		n++
		sc := &vfScenario{Prop: "C09", Class: "enum", Seed: vfMix(vfMix(base, 0xc09), uint64(n)), Cfg: map[string]int64{"kind": 0, "window": 1, "sites": 3}}
		sc.Ops = append([]vfOp{{K: "init", A: 3}}, ops...)
		emit(sc)
	}
	// all 64 open flag sets x targets x attribute flag subsets; then try to modify through the handle
	for pf := 0; pf < 64; pf++ {
		for _, t := range []string{"f0", "nx", "d", "l0", "ldang"} {
			for _, af := range []int{0, waPerm, waSize} {
				mk(vfOp{K: "open", P: t, A: int64(pf), B: int64(af), N: 0o640, H: 0},
					vfOp{K: "write", H: 0, Off: 3, N: 4, B: 9},
					vfOp{K: "fsetstat", H: 0, B: waSize, Off: 1},
					vfOp{K: "close", H: 0})
			}
		}
	}
	// all attribute flag subsets for setstat / fsetstat
	for af := 0; af < 32; af++ {
		flags := int64(af & 15)
		if af&16 != 0 {
			flags |= waExt
		}
		for _, t := range []string{"f0", "d", "l0", "nx", "ldang"} {
			mk(vfOp{K: "setstat", P: t, B: flags, Off: 2, N: 0o600, A: 0})
		}
		mk(vfOp{K: "open", P: "f0", A: wfRead, H: 0}, vfOp{K: "fsetstat", H: 0, B: flags, Off: 2, N: 0o600}, vfOp{K: "close", H: 0})
		mk(vfOp{K: "opendir", P: "d", H: 0}, vfOp{K: "fsetstat", H: 0, B: flags, Off: 2, N: 0o700}, vfOp{K: "close", H: 0})
	}
	// every other request type on every target
	for _, t := range c09Targets {
		for _, k := range []string{"remove", "rmdir", "mkdir", "stat", "lstat", "readlink", "realpath", "opendir", "statvfs"} {
			mk(vfOp{K: k, P: t, H: 0})
		}
		for _, t2 := range c09Targets {
			for _, k := range []string{"rename", "posixrename", "hardlink", "symlink"} {
				mk(vfOp{K: k, P: t, P2: t2})
			}
		}
	}
	for _, name := range []string{"fsync@openssh.com", "hardlink@openssh.co", "copy-data", "", "posix-rename@openssh.com\x00"} {
		mk(vfOp{K: "extunknown", S: name, P: "f0"})
	}
}

type c09Outcome struct {
	replies [][]byte
	parsed  []*wResp
	snaps   []string // snapshot after reply i
	initial string
	reqs    []*wReq
}

func c09Run(r *vfRun, sim *vfSim, readOnly bool) *c09Outcome {
	sc := r.sc.clone()
	sc.Cfg["readonly"] = 0
	if readOnly {
		sc.Cfg["readonly"] = 1
	}
	rr := &vfRun{sc: sc, sim: sim, t: r.t, res: r.res}
	s := vfStartSession(rr, sc.Ops)
	defer s.cleanup()
	out := &c09Outcome{}
	snap := func() string { return strings.ReplaceAll(vfSnapshot(s.root, true), s.root, "<root>") }
	out.initial = snap()
	last := 0
	// after every reply: snapshot (the tree is looked at between events, when the server is quiescent)
	sim.inv = func() {
		n := s.wc.nReplies()
		for last < n {
			out.snaps = append(out.snaps, snap())
			last++
		}
		if readOnly {
			if now := snap(); now != out.initial {
				sim.fail("C09/tree-changed", c09DiffSig(out.initial, now), "the read-only server's tree changed (after %d replies, %d requests sent); last request sent: %v\n--- before:\n%s\n--- now:\n%s", n, len(s.wc.reqs), c09Last(s.wc), out.initial, now)
			}
		}
	}
	sim.run(nil)
	if sim.failed() {
		return nil
	}
	sim.inv()
	sim.inv = nil
	c02CheckReplies(rr, s.wc, true)
	if sim.failed() {
		sim.viol.Class = "C09/" + sim.viol.Class[4:]
		return nil
	}
	out.replies = s.wc.raw
	out.parsed = s.wc.replies
	out.reqs = s.wc.reqs
	s.finish()
	if readOnly {
		if now := snap(); now != out.initial {
			sim.fail("C09/tree-changed", c09DiffSig(out.initial, now), "the read-only server's tree changed by the end of the session\n--- before:\n%s\n--- now:\n%s", out.initial, now)
			return nil
		}
	}
	return out
}

func c09Last(wc *vfWireClient) string {
	if len(wc.reqs) == 0 {
		return "-"
	}
	return wc.reqs[len(wc.reqs)-1].String()
}

// c09DiffSig names what changed: the first differing line's path and which side has it.
func c09DiffSig(a, b string) string {
	la, lb := strings.Split(a, "\n"), strings.Split(b, "\n")
	ma := map[string]bool{}
	for _, l := range la {
		ma[l] = true
	}
	for _, l := range lb {
		if !ma[l] {
			f := strings.Fields(l)
			if len(f) > 0 {
				return "changed:" + f[0]
			}
		}
	}
	mb := map[string]bool{}
	for _, l := range lb {
		mb[l] = true
	}
	for _, l := range la {
		if !mb[l] {
			f := strings.Fields(l)
			if len(f) > 0 {
				return "removed:" + f[0]
			}
		}
	}
	return "changed"
}

func c09Exec(r *vfRun) {
	if ext := r.sc.cfg("extconf", 0); ext > 0 {
		// the package-wide extension list is configured to a subset (both servers see the same configuration):
		// a modifying extension that is switched off is still a modifying request
		var names []string
		for i, n := range []string{"hardlink@openssh.com", "posix-rename@openssh.com", "statvfs@openssh.com"} {
			if ext&(1<<i) != 0 && ext < 8 {
				names = append(names, n)
			}
		}
		SetSFTPExtensions(names...)
		defer func() { sftpExtensions = supportedSFTPExtensions }()
		r.sim.count("probe.extensions_reconfigured")
	}
	simA := r.sim
	mark := len(simA.tape.out)
	ro := c09Run(r, simA, true)
	if ro == nil {
		return
	}
	simA.drain()
	simA.quiesce()
	tape := &vfTape{rec: append([]int(nil), simA.tape.out[mark:]...), replay: true}
	simB := vfNewSim(tape, simA.maxSteps)
	simB.pct = simA.pct
	simB.traceOn = simA.traceOn
	rw := c09Run(r, simB, false)
	if simB.traceOn {
		simA.trace = append(simA.trace, "---- twin run on a writable server ----")
		simA.trace = append(simA.trace, simB.trace...)
	}
	if simB.viol != nil {
		simB.viol.Msg = "(writable twin) " + simB.viol.Msg
		simB.viol.Class = "harness-twin/" + simB.viol.Class
		simA.viol = simB.viol
	}
	simB.drain()
	simB.quiesce()
	vfCur.Store(simA)
	if rw == nil || simA.viol != nil {
		return
	}
	stopAndWait := r.sc.cfg("window", 1) == 1
	if !stopAndWait {
		// pipelined: only the tree invariant (checked above) and the static part of the table
		for i, q := range ro.reqs {
			if c09AlwaysMutating(q) && i < len(ro.parsed) {
				if p := ro.parsed[i]; p.Type != wtStatus || p.Code != wsPermDenied {
					r.fail("C09/mutating-request-not-denied", c09ReqSig(q), "request %v was answered %v by the read-only server, want SSH_FX_PERMISSION_DENIED", q, p)
					return
				}
			}
		}
		r.res.NonTrivial = true
		return
	}
	diverged := false
	prev := rw.initial
	nDenied := 0
	for i, q := range ro.reqs {
		if i >= len(ro.parsed) || i >= len(rw.parsed) || i >= len(rw.snaps) {
			break
		}
		pa, pb := ro.parsed[i], rw.parsed[i]
		changed := rw.snaps[i] != prev
		prev = rw.snaps[i]
		if changed || c09AlwaysMutating(q) {
			// on a writable server this request modifies the tree: the read-only server must deny it
			if pa.Type != wtStatus || pa.Code != wsPermDenied {
				r.fail("C09/mutating-request-not-denied", c09ReqSig(q), "request %v changes the tree of a writable server (or is a modifying request by type) but the read-only server answered %v, want SSH_FX_PERMISSION_DENIED", q, pa)
				return
			}
			nDenied++
			if changed {
				diverged = true
			}
			continue
		}
		if !diverged && !c09HandleDependent(q) {
			// a purely reading request, both trees still identical: same answer as on the writable server
			if pa.Type == wtHandle && pb.Type == wtHandle {
				continue // handle names differ once an earlier open was denied
			}
			if !bytes.Equal(c18NormaliseFrame(ro.replies[i]), c18NormaliseFrame(rw.replies[i])) {
				// an OPEN that is denied although it would not change anything is a legitimate conservative answer
				if q.Type == wtOpen && pa.Type == wtStatus && pa.Code == wsPermDenied && q.Pflags&(wfWrite|wfAppend|wfCreat|wfTrunc) != 0 {
					continue
				}
				r.fail("C09/reading-request-answered-differently", c09ReqSig(q), "request %v does not modify anything; the writable server answers %v, the read-only server %v", q, pb, pa)
				return
			}
		}
	}
	if nDenied > 0 {
		simA.count("probe.mutating_request_denied")
	}
	r.res.NonTrivial = len(ro.reqs) >= 2
}

// requests that modify by their very type (independent table, from the draft)
func c09AlwaysMutating(q *wReq) bool {
	switch q.Type {
	case wtWrite, wtSetstat, wtFsetstat, wtRemove, wtMkdir, wtRmdir, wtRename, wtSymlink:
		return true
	case wtExtended:
		return q.ExtName == "posix-rename@openssh.com" || q.ExtName == "hardlink@openssh.com"
	}
	return false
}

// replies that depend on handle state which differs between the twins once an open was denied
func c09HandleDependent(q *wReq) bool {
	switch q.Type {
	case wtRead, wtClose, wtFstat, wtReaddir:
		return true
	}
	return false
}

func c09ReqSig(q *wReq) string {
	s := wtStr(q.Type)
	if q.Type == wtOpen {
		s += fmt.Sprintf("-pf%02x", q.Pflags&63)
	}
	if q.Type == wtExtended {
		s += "-" + q.ExtName
	}
	return s
}
