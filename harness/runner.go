//go:build verif

package sftp

// Scenario type, property registry, single-run wrapper (one synctest bubble per run),
// minimiser, and the worker entry point TestVF that the runner script drives.

import (
	"bytes"
	"encoding/json"
	"fmt"
	"os"
	"os/exec"
	"runtime"
	rdebug "runtime/debug"
	"sort"
	"strconv"
	"strings"
	"testing"
	"testing/synctest"
	"time"
)

// vfOp is one step of a generated program. The meaning of the fields depends on K.
type vfOp struct {
	K   string `json:"k"`
	T   int    `json:"t,omitempty"` // task / client index
	H   int    `json:"h,omitempty"` // handle slot
	P   string `json:"p,omitempty"`
	P2  string `json:"p2,omitempty"`
	Off int64  `json:"off,omitempty"`
	N   int    `json:"n,omitempty"`
	A   int64  `json:"a,omitempty"`
	B   int64  `json:"b,omitempty"`
	S   string `json:"s,omitempty"`
}

// vfFault is one planned fault.
type vfFault struct {
	K  string `json:"k"`
	At int64  `json:"at,omitempty"`
	A  int64  `json:"a,omitempty"`
	B  int64  `json:"b,omitempty"`
	S  string `json:"s,omitempty"`
}

type vfScenario struct {
	Prop   string           `json:"prop"`
	Class  string           `json:"class"`
	Seed   uint64           `json:"seed"`
	Cfg    map[string]int64 `json:"cfg,omitempty"`
	Ops    []vfOp           `json:"ops,omitempty"`
	Faults []vfFault        `json:"faults,omitempty"`
	Tape   []int            `json:"tape,omitempty"`
	Replay bool             `json:"replay,omitempty"` // tape is authoritative
	// filled in for a reported failure
	Violation *vfViolation `json:"violation,omitempty"`
	Trace     []string     `json:"trace,omitempty"`
	LogHash   string       `json:"log_hash,omitempty"`
}

func (sc *vfScenario) cfg(k string, def int64) int64 {
	if v, ok := sc.Cfg[k]; ok {
		return v
	}
	return def
}

func (sc *vfScenario) clone() *vfScenario {
	b, _ := json.Marshal(sc)
	var c vfScenario
	json.Unmarshal(b, &c)
	c.Violation, c.Trace = nil, nil
	return &c
}

func (sc *vfScenario) summary() string {
	b, _ := json.Marshal(struct {
		Class  string           `json:"class"`
		Seed   uint64           `json:"seed"`
		Cfg    map[string]int64 `json:"cfg,omitempty"`
		Ops    []vfOp           `json:"ops,omitempty"`
		Faults []vfFault        `json:"faults,omitempty"`
	}{sc.Class, sc.Seed, sc.Cfg, sc.Ops, sc.Faults})
	return string(b)
}

type vfResult struct {
	Viol       *vfViolation
	Hash       uint64
	SchedHash  uint64
	Steps      int
	SimNs      int64
	Stats      map[string]int
	NonTrivial bool
	Skipped    string // precondition false etc.
	Tape       []int
	Trace      []string
	Extra      any // property-specific data handed back to generators (golden runs)
}

// vfRun is handed to a property's exec function.
type vfRun struct {
	sc  *vfScenario
	sim *vfSim
	t   *testing.T
	res *vfResult
}

func (r *vfRun) fail(class, sig, format string, args ...any) { r.sim.fail(class, sig, format, args...) }

type vfProp struct {
	id      string
	classes []string
	// gen builds the scenario for (class, seed); it must be a pure function of its arguments.
	gen func(class string, seed uint64, tier string) *vfScenario
	// exec runs the scenario inside a bubble.
	exec func(r *vfRun)
	// enumerate (optional) emits extra, systematically enumerated scenarios.
	enumerate func(tier string, base uint64, emit func(*vfScenario))
	// maxSteps per run
	maxSteps int
	// simplify (optional) adds property-specific shrink candidates.
	simplify func(sc *vfScenario) []*vfScenario
	// valid (optional) rejects shrink candidates the oracle is not defined for.
	valid func(sc *vfScenario) bool
	// noDouble: the check compares two executions byte for byte (or relies on the scheduler owning every order), so
	// its race-enabled phase never releases two goroutines in one step.
	noDouble bool
}

// vfDoubleRelease is set by the runner for the race-enabled phase (VF_DOUBLE=1).
var vfDoubleRelease = os.Getenv("VF_DOUBLE") == "1"

var vfProps = map[string]*vfProp{}

func vfRegister(p *vfProp) {
	if p.maxSteps == 0 {
		p.maxSteps = 20000
	}
	vfProps[p.id] = p
}

// vfExecute runs one scenario in its own bubble and returns the result.
func vfExecute(t *testing.T, sc *vfScenario, trace bool) (res *vfResult) {
	p := vfProps[sc.Prop]
	if p == nil {
		panic("unknown property " + sc.Prop)
	}
	res = &vfResult{Stats: map[string]int{}}
	tape := &vfTape{rec: sc.Tape, replay: sc.Replay}
	if !sc.Replay {
		tape.rng = vfRng(sc.Seed, 3)
	}
	var sim *vfSim
	func() {
		defer func() {
			if e := recover(); e != nil {
				msg := fmt.Sprint(e)
				if strings.Contains(msg, "deadlock: main bubble goroutine has exited") {
					if sim != nil && sim.viol == nil {
						sim.viol = &vfViolation{Class: "leak/goroutines-after-run", Sig: "bubble-exit", Msg: msg}
					}
					return
				}
				if sim != nil && sim.viol == nil {
					sim.viol = &vfViolation{Class: "harness-panic", Sig: "harness", Msg: msg + "\n" + string(rdebug.Stack())}
				}
			}
		}()
		synctest.Test(t, func(t *testing.T) {
			sim = vfNewSim(tape, p.maxSteps)
			sim.traceOn = trace
			sim.pct = sc.cfg("pct", 0) != 0
			sim.double = sc.cfg("double", 0) != 0
			vfOptMix = uint64(sc.cfg("optmix", 0))
			t0 := time.Now()
			run := &vfRun{sc: sc, sim: sim, t: t, res: res}
			func() {
				defer func() {
					if e := recover(); e != nil {
						sim.fail("panic/root", "root", "panic in simulation root: %v\n%s", e, vfShortStack())
					}
				}()
				p.exec(run)
			}()
			sim.drain()
			synctest.Wait()
			res.SimNs = int64(time.Since(t0))
			vfCur.Store(nil)
		})
	}()
	if sim != nil {
		res.Viol = sim.viol
		res.Hash = sim.hash
		res.SchedHash = sim.shash
		res.Steps = sim.steps
		for k, v := range sim.stats {
			res.Stats[k] += v
		}
		res.Trace = sim.trace
	}
	res.Tape = tape.out
	return res
}

func vfShortStack() string {
	st := string(rdebug.Stack())
	lines := strings.Split(st, "\n")
	var out []string
	for _, l := range lines {
		if strings.HasPrefix(l, "github.com/pkg/sftp.") && !strings.Contains(l, "vfShortStack") {
			out = append(out, strings.TrimPrefix(l, "github.com/pkg/sftp."))
			if len(out) >= 8 {
				break
			}
		}
	}
	return strings.Join(out, " <- ")
}

// vfPanicSite returns the first package frame that is not harness code (for signatures).
func vfPanicSite() string {
	st := string(rdebug.Stack())
	for _, l := range strings.Split(st, "\n") {
		if strings.HasPrefix(l, "github.com/pkg/sftp.") && !strings.Contains(l, "vf") {
			l = strings.TrimPrefix(l, "github.com/pkg/sftp.")
			if j := strings.LastIndex(l, "("); j > 0 {
				l = l[:j]
			}
			return l
		}
	}
	return "?"
}

// ---------------------------------------------------------------- minimiser

type vfRunner func(sc *vfScenario) *vfViolation

func vfSameFailure(a, b *vfViolation) bool {
	return a != nil && b != nil && a.Class == b.Class && a.Sig == b.Sig
}

func vfCandidates(p *vfProp, sc *vfScenario) []*vfScenario {
	var out []*vfScenario
	add := func(f func(c *vfScenario)) {
		c := sc.clone()
		f(c)
		out = append(out, c)
	}
	// drop halves / single ops
	n := len(sc.Ops)
	if n > 3 {
		add(func(c *vfScenario) { c.Ops = c.Ops[:n/2] })
		add(func(c *vfScenario) { c.Ops = c.Ops[n/2:] })
	}
	for i := n - 1; i >= 0; i-- {
		i := i
		add(func(c *vfScenario) { c.Ops = append(c.Ops[:i:i], c.Ops[i+1:]...) })
	}
	for i := range sc.Faults {
		i := i
		add(func(c *vfScenario) { c.Faults = append(c.Faults[:i:i], c.Faults[i+1:]...) })
	}
	// tape: truncate, zero
	if len(sc.Tape) > 0 {
		add(func(c *vfScenario) { c.Tape = nil })
		add(func(c *vfScenario) { c.Tape = c.Tape[:len(c.Tape)/2] })
		nz := 0
		for _, v := range sc.Tape {
			if v != 0 {
				nz++
			}
		}
		if nz > 0 {
			add(func(c *vfScenario) {
				for i := len(c.Tape) / 2; i < len(c.Tape); i++ {
					c.Tape[i] = 0
				}
			})
			add(func(c *vfScenario) {
				for i := 0; i < len(c.Tape)/2; i++ {
					c.Tape[i] = 0
				}
			})
			if nz <= 24 {
				for i, v := range sc.Tape {
					if v != 0 {
						i := i
						add(func(c *vfScenario) { c.Tape[i] = 0 })
					}
				}
			}
		}
	}
	// numbers
	for i, op := range sc.Ops {
		i := i
		if op.N > 1 {
			add(func(c *vfScenario) { c.Ops[i].N = c.Ops[i].N / 2 })
			add(func(c *vfScenario) { c.Ops[i].N-- })
		}
		if op.Off > 0 {
			add(func(c *vfScenario) { c.Ops[i].Off = 0 })
			add(func(c *vfScenario) { c.Ops[i].Off-- })
		}
	}
	for i, f := range sc.Faults {
		i := i
		if f.At > 0 {
			add(func(c *vfScenario) { c.Faults[i].At = c.Faults[i].At / 2 })
			add(func(c *vfScenario) { c.Faults[i].At-- })
		}
	}
	keys := make([]string, 0, len(sc.Cfg))
	for k := range sc.Cfg {
		keys = append(keys, k)
	}
	sort.Strings(keys)
	for _, k := range keys {
		k := k
		v := sc.Cfg[k]
		if v > 1 {
			add(func(c *vfScenario) { c.Cfg[k] = v / 2 })
			add(func(c *vfScenario) { c.Cfg[k] = v - 1 })
		} else if v == 1 {
			add(func(c *vfScenario) { c.Cfg[k] = 0 })
		}
	}
	if p.simplify != nil {
		out = append(out, p.simplify(sc)...)
	}
	if p.valid != nil {
		k := 0
		for _, c := range out {
			if p.valid(c) {
				out[k] = c
				k++
			}
		}
		out = out[:k]
	}
	return out
}

// vfMinimise shrinks a failing scenario (which must carry its tape) while the same
// violation (class and signature) persists.
func vfMinimise(p *vfProp, sc *vfScenario, want *vfViolation, run vfRunner, budget time.Duration) (*vfScenario, int) {
	deadline := time.Now().Add(budget)
	best := sc
	tried := 0
	for improved := true; improved && time.Now().Before(deadline); {
		improved = false
		for _, c := range vfCandidates(p, best) {
			if time.Now().After(deadline) {
				break
			}
			c.Replay = true
			tried++
			if v := run(c); vfSameFailure(v, want) {
				best = c
				improved = true
				break
			}
		}
	}
	return best, tried
}

// ---------------------------------------------------------------- worker entry point

type vfWorkerOut struct {
	Prop       string            `json:"prop"`
	Runs       int               `json:"runs"`
	Skipped    map[string]int    `json:"skipped,omitempty"`
	Steps      int64             `json:"steps"`
	SimNs      int64             `json:"sim_ns"`
	Stats      map[string]int    `json:"stats"`
	ByClass    map[string]int    `json:"by_class"`
	NonTrivial []string          `json:"nontrivial_hashes"`
	SchedN     int               `json:"sched_hashes"`
	Scheds     []string          `json:"sched_hash_list"`
	Samples    []json.RawMessage `json:"samples"`
	Violations []vfScenario      `json:"violations"`
	LogHashes  map[string]string `json:"log_hashes,omitempty"` // determinism self-test: run index -> hash
	KnownHits  map[string]int    `json:"known_hits,omitempty"`
	WallS      float64           `json:"wall_s"`
	Incomplete bool              `json:"incomplete,omitempty"`
}

func vfEnvInt(k string, def int64) int64 {
	if v := os.Getenv(k); v != "" {
		n, err := strconv.ParseInt(v, 10, 64)
		if err == nil {
			return n
		}
		u, err := strconv.ParseUint(v, 10, 64)
		if err == nil {
			return int64(u)
		}
	}
	return def
}

func vfJournal(path string, line string) {
	if path == "" {
		return
	}
	os.WriteFile(path, []byte(line), 0o644)
}

func vfStartWatchdog(journal string) {
	go func() {
		last := vfProgress.Load()
		idle := 0
		for {
			time.Sleep(time.Second)
			cur := vfProgress.Load()
			if cur != last {
				last = cur
				idle = 0
				continue
			}
			idle++
			if idle >= int(vfEnvInt("VF_WEDGE_S", 60)) {
				buf := make([]byte, 1<<22)
				n := runtime.Stack(buf, true)
				fmt.Fprintf(os.Stderr, "VF-WEDGE no scheduler progress for %d s\n%s\n", idle, buf[:n])
				os.Exit(3)
			}
		}
	}()
}

// isolated runner: each candidate in a child process (needed when the failure kills the process).
func vfIsolatedRunner(sc *vfScenario) *vfViolation {
	f, err := os.CreateTemp("/dev/shm", "vf-cand-*.json")
	if err != nil {
		panic(err)
	}
	defer os.Remove(f.Name())
	b, _ := json.Marshal(sc)
	f.Write(b)
	f.Close()
	out := f.Name() + ".out"
	defer os.Remove(out)
	cmd := exec.Command(os.Args[0], "-test.run", "^TestVF$", "-test.cpu", "1")
	cmd.Env = append(os.Environ(), "VF_MODE=replay", "VF_REPLAY="+f.Name(), "VF_OUT="+out, "VF_QUIET=1", "VF_WEDGE_S=20")
	var stderr bytes.Buffer
	cmd.Stderr = &stderr
	cmd.Stdout = &stderr
	err = cmd.Run()
	if b, e := os.ReadFile(out); e == nil && len(b) > 0 {
		var v struct {
			Viol *vfViolation `json:"viol"`
		}
		if json.Unmarshal(b, &v) == nil {
			return v.Viol
		}
	}
	if err != nil {
		return vfCrashViolation(stderr.String())
	}
	return nil
}

// vfCrashViolation classifies the stderr of a dead worker process.
func vfCrashViolation(stderr string) *vfViolation {
	if i := strings.Index(stderr, "WARNING: DATA RACE"); i >= 0 {
		// the race-detector tier: the process halts at the first report
		rep := stderr[i:]
		if j := strings.Index(rep, "=================="); j > 0 {
			rep = rep[:j]
		}
		sig := vfFirstPkgFrame(rep)
		if sig == "?" {
			return &vfViolation{Class: "harness-panic", Sig: "harness-race", Msg: "data race reported with no package frame in it:\n" + vfTail(rep, 1500)}
		}
		return &vfViolation{Class: "race/data-race", Sig: sig, Msg: "the race detector reports unsynchronised access in package code during this run:\n" + rep[:min(len(rep), 1800)]}
	}
	if strings.Contains(stderr, "VF-WEDGE") {
		return &vfViolation{Class: "hang/wedge", Sig: vfFirstPkgFrame(stderr), Msg: "scheduler could not reach quiescence (goroutine spinning or blocked on a lock)"}
	}
	if i := strings.Index(stderr, "panic: "); i >= 0 {
		msg := stderr[i:]
		if j := strings.Index(msg, "\n"); j > 0 {
			msg = msg[:j]
		}
		return &vfViolation{Class: "panic/process", Sig: vfFirstPkgFrame(stderr[i:]), Msg: msg}
	}
	if i := strings.Index(stderr, "fatal error: "); i >= 0 {
		msg := stderr[i:]
		if j := strings.Index(msg, "\n"); j > 0 {
			msg = msg[:j]
		}
		return &vfViolation{Class: "panic/process", Sig: vfFirstPkgFrame(stderr[i:]), Msg: msg}
	}
	return &vfViolation{Class: "crash/unknown", Sig: "?", Msg: vfTail(stderr, 400)}
}

func vfTail(s string, n int) string {
	if len(s) > n {
		return s[len(s)-n:]
	}
	return s
}

func vfFirstPkgFrame(st string) string {
	for _, l := range strings.Split(st, "\n") {
		l = strings.TrimSpace(l)
		if strings.HasPrefix(l, "github.com/pkg/sftp.") && !strings.Contains(l, ".vf") && !strings.Contains(l, "TestVF") {
			l = strings.TrimPrefix(l, "github.com/pkg/sftp.")
			if j := strings.LastIndex(l, "("); j > 0 {
				l = l[:j]
			}
			return l
		}
	}
	return "?"
}

func TestVF(t *testing.T) {
	mode := os.Getenv("VF_MODE")
	if mode == "" {
		t.Skip("VF_MODE not set")
	}
	vfT = t
	rdebug.SetGCPercent(400)
	journal := os.Getenv("VF_JOURNAL")
	vfStartWatchdog(journal)
	switch mode {
	case "run":
		vfWorkerRun(t, journal)
	case "replay":
		vfWorkerReplay(t)
	case "minimise":
		vfWorkerMinimise(t)
	default:
		t.Fatalf("unknown VF_MODE %q", mode)
	}
}

func vfWriteJSON(path string, v any) {
	b, err := json.Marshal(v)
	if err != nil {
		panic(err)
	}
	if err := os.WriteFile(path, b, 0o644); err != nil {
		panic(err)
	}
}

func vfWorkerRun(t *testing.T, journal string) {
	prop := os.Getenv("VF_PROP")
	p := vfProps[prop]
	if p == nil {
		fmt.Fprintf(os.Stderr, "VF-ERROR unknown property %q\n", prop)
		os.Exit(2)
	}
	base := uint64(vfEnvInt("VF_BASE", 1))
	start := vfEnvInt("VF_START", 0)
	count := vfEnvInt("VF_COUNT", 100)
	stride := vfEnvInt("VF_STRIDE", 1)
	tier := os.Getenv("VF_TIER")
	if tier == "" {
		tier = "quick"
	}
	budget := time.Duration(vfEnvInt("VF_BUDGET_S", 3600)) * time.Second
	wantHashes := os.Getenv("VF_LOGHASHES") == "1"
	outPath := os.Getenv("VF_OUT")
	maxViol := int(vfEnvInt("VF_MAXVIOL", 3))
	onlyClass := os.Getenv("VF_CLASS")

	out := &vfWorkerOut{Prop: prop, Stats: map[string]int{}, ByClass: map[string]int{}, Skipped: map[string]int{}, KnownHits: map[string]int{}}
	known := map[string]bool{}
	if ks := os.Getenv("VF_KNOWN"); ks != "" {
		var pairs [][2]string
		if json.Unmarshal([]byte(ks), &pairs) == nil {
			for _, p := range pairs {
				known[p[0]+"|"+p[1]] = true
			}
		}
	}
	if wantHashes {
		out.LogHashes = map[string]string{}
	}
	nontriv := map[uint64]bool{}
	scheds := map[uint64]bool{}
	seenSig := map[string]bool{}
	t0 := time.Now()

	var scenarios []*vfScenario
	if os.Getenv("VF_ENUM") == "1" {
		if p.enumerate != nil {
			idx := int64(0)
			p.enumerate(tier, base, func(sc *vfScenario) {
				if idx%stride == start {
					scenarios = append(scenarios, sc)
				}
				idx++
			})
		}
	}
	runOne := func(sc *vfScenario, idx int64) {
		vfJournal(journal, sc.summary())
		dump := os.Getenv("VF_DUMPTRACE")
		res := vfExecute(t, sc, dump != "")
		if dump != "" {
			os.WriteFile(fmt.Sprintf("%s.%d", dump, idx), []byte(sc.summary()+"\n"+strings.Join(res.Trace, "\n")+"\n"), 0o644)
		}
		out.Runs++
		out.ByClass[sc.Class]++
		out.Steps += int64(res.Steps)
		out.SimNs += res.SimNs
		for k, v := range res.Stats {
			out.Stats[k] += v
		}
		if res.Skipped != "" {
			out.Skipped[res.Skipped]++
		}
		scheds[res.SchedHash] = true
		if res.NonTrivial {
			nontriv[vfMix(res.SchedHash, vfHashStr(sc.summary()))] = true
		}
		if sc.cfg("coin", 0) != 0 {
			out.Stats["runs.exposed_to_select_coin"]++
		}
		if wantHashes && sc.cfg("coin", 0) == 0 {
			out.LogHashes[fmt.Sprintf("%s/%d", sc.Class, idx)] = fmt.Sprintf("%016x", res.Hash)
		}
		if len(out.Samples) < 3 && res.NonTrivial {
			out.Samples = append(out.Samples, json.RawMessage(sc.summary()))
		}
		if res.Viol != nil {
			key := res.Viol.Class + "|" + res.Viol.Sig
			if known[key] {
				out.KnownHits[key]++
				return
			}
			if seenSig[key] || len(out.Violations) >= maxViol {
				out.Stats["violations.duplicate"]++
				return
			}
			seenSig[key] = true
			fail := sc.clone()
			fail.Tape = res.Tape
			fail.Replay = true
			// confirm by replay, then minimise
			rr := vfExecute(t, fail, false)
			if !vfSameFailure(rr.Viol, res.Viol) {
				fail.Violation = res.Viol
				fail.Violation.Msg += fmt.Sprintf(" [REPLAY-DIVERGED: replay gave %+v]", rr.Viol)
				fail.Class = sc.Class
				out.Violations = append(out.Violations, *fail)
				return
			}
			min, tried := vfMinimise(p, fail, res.Viol, func(c *vfScenario) *vfViolation {
				return vfExecute(t, c, false).Viol
			}, time.Duration(vfEnvInt("VF_MIN_S", 20))*time.Second)
			out.Stats["minimise.candidates"] += tried
			fr := vfExecute(t, min, true)
			min.Tape = fr.Tape
			min.Violation = fr.Viol
			if min.Violation == nil {
				min.Violation = res.Viol
			}
			min.Trace = fr.Trace
			min.LogHash = fmt.Sprintf("%016x", fr.Hash)
			out.Violations = append(out.Violations, *min)
		}
	}
	for i, sc := range scenarios {
		if time.Since(t0) > budget {
			out.Incomplete = true
			break
		}
		runOne(sc, int64(i))
	}
	if os.Getenv("VF_ENUM") != "1" {
		classes := p.classes
		for i := int64(0); i < count; i++ {
			if time.Since(t0) > budget {
				out.Incomplete = true
				break
			}
			idx := start + i*stride
			class := classes[int(idx%int64(len(classes)))]
			if onlyClass != "" {
				class = onlyClass
			}
			seed := vfMix(vfMix(base, vfHashStr(prop+"/"+class)), uint64(idx))
			sc := p.gen(class, seed, tier)
			sc.Prop, sc.Class, sc.Seed = prop, class, seed
			if sc.Cfg != nil && vfMix(seed, 0x9c7)%3 == 0 {
				sc.Cfg["pct"] = 1 // a third of the runs use priority scheduling
			}
			if sc.Cfg != nil && vfDoubleRelease && !p.noDouble && vfMix(seed, 0x0d0)%2 == 0 {
				sc.Cfg["double"] = 1 // (race-enabled phase only) some steps release two parked goroutines at once
			}
			if sc.Cfg != nil && vfMix(seed, 0x0b7)%2 == 0 {
				// half of the runs hand the server its options in another order, some with an
				// option that is a no-op on this platform mixed in
				sc.Cfg["optmix"] = int64(1 + vfMix(seed, 0x0b8)%1000)
			}
			runOne(sc, idx)
		}
	}
	for h := range nontriv {
		out.NonTrivial = append(out.NonTrivial, fmt.Sprintf("%016x", h))
	}
	sort.Strings(out.NonTrivial)
	out.SchedN = len(scheds)
	for h := range scheds {
		out.Scheds = append(out.Scheds, fmt.Sprintf("%016x", h))
	}
	sort.Strings(out.Scheds)
	out.WallS = time.Since(t0).Seconds()
	vfJournal(journal, "")
	if outPath != "" {
		vfWriteJSON(outPath, out)
	}
}

func vfHashStr(s string) uint64 {
	h := uint64(14695981039346656037)
	for i := 0; i < len(s); i++ {
		h ^= uint64(s[i])
		h *= 1099511628211
	}
	return h
}

func vfLoadScenario(path string) *vfScenario {
	b, err := os.ReadFile(path)
	if err != nil {
		fmt.Fprintf(os.Stderr, "VF-ERROR cannot read replay file: %v\n", err)
		os.Exit(2)
	}
	var sc vfScenario
	if err := json.Unmarshal(b, &sc); err != nil {
		fmt.Fprintf(os.Stderr, "VF-ERROR cannot parse replay file: %v\n", err)
		os.Exit(2)
	}
	if vfProps[sc.Prop] == nil {
		fmt.Fprintf(os.Stderr, "VF-ERROR unknown property %q in replay file\n", sc.Prop)
		os.Exit(2)
	}
	return &sc
}

func vfWorkerReplay(t *testing.T) {
	sc := vfLoadScenario(os.Getenv("VF_REPLAY"))
	want := sc.Violation
	wantHash := sc.LogHash
	sc.Violation, sc.Trace = nil, nil
	res := vfExecute(t, sc, true)
	quiet := os.Getenv("VF_QUIET") == "1"
	if out := os.Getenv("VF_OUT"); out != "" {
		vfWriteJSON(out, map[string]any{"viol": res.Viol, "hash": fmt.Sprintf("%016x", res.Hash), "steps": res.Steps})
	}
	if !quiet {
		for _, l := range res.Trace {
			fmt.Println(l)
		}
		fmt.Printf("log_hash=%016x steps=%d\n", res.Hash, res.Steps)
		if wantHash != "" && wantHash != fmt.Sprintf("%016x", res.Hash) {
			fmt.Printf("REPLAY-DIVERGED recorded log_hash=%s\n", wantHash)
		}
		if res.Viol != nil {
			fmt.Printf("VIOLATION-REPRODUCED property=%s class=%s sig=%s\n  %s\n", sc.Prop, res.Viol.Class, res.Viol.Sig, res.Viol.Msg)
			if want != nil && !vfSameFailure(want, res.Viol) {
				fmt.Printf("NOTE recorded violation was class=%s sig=%s\n", want.Class, want.Sig)
			}
		} else {
			fmt.Println("NO-VIOLATION")
		}
	}
}

// vfWorkerMinimise minimises a crash-type failure with one child process per candidate.
func vfWorkerMinimise(t *testing.T) {
	sc := vfLoadScenario(os.Getenv("VF_REPLAY"))
	p := vfProps[sc.Prop]
	// a scenario taken from the journal has no tape: replay it in generation mode first
	first := vfIsolatedRunner(sc)
	if first == nil {
		vfWriteJSON(os.Getenv("VF_OUT"), map[string]any{"reproduced": false})
		return
	}
	min, tried := vfMinimise(p, sc, first, vfIsolatedRunner, time.Duration(vfEnvInt("VF_MIN_S", 60))*time.Second)
	min.Violation = first
	vfWriteJSON(os.Getenv("VF_OUT"), map[string]any{"reproduced": true, "scenario": min, "tried": tried})
}
