//go:build verif

package sftp

// C08 — decoding arbitrary bytes is total and bounded (stream-facing scope, see DESIGN.md §4).
//
// Two parts, reported separately in the evidence:
//   frame  : the framing readers (recvPacket of this package, readPacket of the filexfer codec) fed from
//            the simulated reader with fragmentation and EOF / read error at an arbitrary offset
//            (the simulator's subject: a reader that fails at an arbitrary instant, bytes consumed counted)
//   decode : every decoding entry point on systematically mutated encodings (input-quantified; driven from
//            the same harness, no schedule involved)

import (
	"bytes"
	"encoding/binary"
	"errors"
	"fmt"
	"io"
	"runtime"

	sshfx "github.com/pkg/sftp/internal/encoding/ssh/filexfer"
)

func init() {
	vfRegister(&vfProp{
		id:        "C08",
		classes:   []string{"frame", "frame-fx", "decode", "decode"},
		gen:       c08Gen,
		exec:      c08Exec,
		enumerate: c08Enumerate,
		maxSteps:  20000,
	})
}

// corpus: valid encodings (frame bodies, type byte first) of every packet kind
func c08Corpus(seed uint64) [][]byte {
	long := string(vfFill(seed, 0, 70))
	at := wAttrs{Flags: waSize | waUIDs | waPerm | waTimes | waExt, Size: 1 << 40, UID: 7, GID: 8, Perm: 0o100644, Atime: 9, Mtime: 10, Ext: [][2]string{{"a@b", "c"}, {"dd", ""}}}
	reqs := []*wReq{
		{Type: wtInit, Version: 3, Exts: [][2]string{{"x@y", "1"}}},
		{Type: wtOpen, ID: 1, Path: "/a/" + long, Pflags: 0x1a, Attrs: at},
		{Type: wtOpen, ID: 1, Path: "p", Pflags: 1},
		{Type: wtClose, ID: 2, Handle: "h1"}, {Type: wtRead, ID: 3, Handle: "h1", Offset: 1 << 33, Len: 32768},
		{Type: wtWrite, ID: 4, Handle: "h1", Offset: 5, Data: vfFill(seed^1, 0, 40)},
		{Type: wtLstat, ID: 5, Path: "p"}, {Type: wtFstat, ID: 6, Handle: "h"}, {Type: wtSetstat, ID: 7, Path: "p", Attrs: at},
		{Type: wtFsetstat, ID: 8, Handle: "h", Attrs: wAttrs{Flags: waPerm, Perm: 0o600}}, {Type: wtOpendir, ID: 9, Path: "d"},
		{Type: wtReaddir, ID: 10, Handle: "h"}, {Type: wtRemove, ID: 11, Path: "p"}, {Type: wtMkdir, ID: 12, Path: "p", Attrs: wAttrs{Flags: waPerm, Perm: 0o755}},
		{Type: wtRmdir, ID: 13, Path: "p"}, {Type: wtRealpath, ID: 14, Path: "."}, {Type: wtStat, ID: 15, Path: "p"},
		{Type: wtRename, ID: 16, Path: "a", Path2: "b"}, {Type: wtReadlink, ID: 17, Path: "l"}, {Type: wtSymlink, ID: 18, Path: "l", Path2: "t"},
		{Type: wtExtended, ID: 19, ExtName: "statvfs@openssh.com", Path: "/"}, {Type: wtExtended, ID: 20, ExtName: "posix-rename@openssh.com", Path: "a", Path2: "b"},
		{Type: wtExtended, ID: 21, ExtName: "hardlink@openssh.com", Path: "a", Path2: "b"}, {Type: wtExtended, ID: 22, ExtName: "fsync@openssh.com", Handle: "h"},
		{Type: wtExtended, ID: 23, ExtName: "unknown@x", ExtData: []byte{1, 2, 3}},
	}
	resps := []*wResp{
		{Type: wtVersion, Version: 3, Exts: [][2]string{{"a@b", "1"}, {"c@d", "22"}}},
		{Type: wtStatus, ID: 1, Code: 4, Msg: "failure " + long, Lang: "en"}, {Type: wtStatus, ID: 1, Code: 0},
		{Type: wtHandle, ID: 2, Handle: "handle-1"}, {Type: wtData, ID: 3, Data: vfFill(seed^2, 0, 33)},
		{Type: wtName, ID: 4, Names: []wName{{Name: "n1", Long: "-rw- n1", Attrs: at}, {Name: "n2", Long: "l2", Attrs: wAttrs{}}, {Name: long, Long: long, Attrs: wAttrs{Flags: waSize, Size: 5}}}},
		{Type: wtAttrs, ID: 5, Attrs: at}, {Type: wtExtReply, ID: 6, Raw: vfFill(seed^3, 0, 88)},
	}
	var out [][]byte
	for _, q := range reqs {
		out = append(out, q.encode()[4:])
	}
	for _, p := range resps {
		out = append(out, p.encode()[4:])
	}
	return out
}

var c08Vals6 = []uint32{0, 1, 0, 0, 0x7fffffff, 0xffffffff, 0x20000000, 0x20000001, 0x40000000, 0x10000000, 0x80000000, 0x15555556}

func c08Mutate(body []byte, f vfFault) []byte {
	b := append([]byte(nil), body...)
	switch f.A {
	case 0: // truncation
		if int(f.B) < len(b) {
			b = b[:f.B]
		}
	case 1: // a 4-byte field
		pos := int(f.B)
		if pos+4 <= len(b) {
			n := binary.BigEndian.Uint32(b[pos:])
			var vi int
			fmt.Sscanf(f.S, "%d", &vi)
			v := c08Vals6[vi%len(c08Vals6)]
			switch vi % len(c08Vals6) {
			case 2:
				v = n - 1
			case 3:
				v = n + 1
			}
			binary.BigEndian.PutUint32(b[pos:], v)
		}
	case 2: // type byte
		if len(b) > 0 {
			b[0] = byte(f.B)
		}
	case 3: // arbitrary bytes
		rng := vfRng(uint64(f.B), 5)
		b = make([]byte, rng.IntN(80))
		for i := range b {
			b[i] = byte(rng.IntN(256))
		}
	}
	return b
}

func c08Gen(class string, seed uint64, tier string) *vfScenario {
	rng := vfRng(seed, 1)
	sc := &vfScenario{Cfg: map[string]int64{}}
	switch class {
	case "frame", "frame-fx":
		// a stream of 1-3 frames; one of them gets a special length prefix; the stream ends / fails at a random offset
		sc.Cfg["nframes"] = int64(1 + rng.IntN(3))
		sc.Cfg["alloc"] = int64(rng.IntN(2))
		sc.Cfg["which"] = int64(rng.IntN(3))
		sc.Cfg["lenkind"] = int64(rng.IntN(9)) // 0 keep; else a special value
		if class == "frame-fx" && rng.IntN(2) == 0 {
			// the caller's limit and the buffer it lends (capacity above or below the limit)
			sc.Cfg["fxlim"] = int64(rng.IntN(7))
			sc.Cfg["fxbuf"] = int64(rng.IntN(7))
		}
		f := vfFault{K: "cut", At: int64(rng.IntN(200)), A: int64(rng.IntN(3))}
		if rng.IntN(4) > 0 {
			sc.Faults = []vfFault{f}
		}
	default:
		f := vfFault{K: "mutate", At: int64(rng.IntN(40))}
		switch x := rng.IntN(100); {
		case x < 30:
			f.A, f.B = 0, int64(rng.IntN(120))
		case x < 75:
			f.A, f.B, f.S = 1, int64(rng.IntN(120)), fmt.Sprint(rng.IntN(len(c08Vals6)))
		case x < 90:
			f.A, f.B = 2, int64(rng.IntN(256))
		default:
			f.A, f.B = 3, int64(rng.Uint32())
		}
		sc.Faults = []vfFault{f}
	}
	return sc
}

func c08Enumerate(tier string, base uint64, emit func(*vfScenario)) {
	seed := vfMix(base, 0xc08)
	corpus := c08Corpus(seed)
	n := 0
	// one scenario per corpus item and mutation family; the scenario enumerates positions itself (cheap, no bubble work)
	for i := range corpus {
		for fam := 0; fam < 3; fam++ {
			n++
			emit(&vfScenario{Prop: "C08", Class: "decode-enum", Seed: seed, Cfg: map[string]int64{"item": int64(i), "family": int64(fam)}})
		}
	}
	// framing: every special length value x both readers x allocator x cut at every offset of a short stream
	for lk := 0; lk < 9; lk++ {
		for rd := 0; rd < 2; rd++ {
			for cut := 0; cut <= 40; cut += 1 {
				for kind := 0; kind < 2; kind++ {
					n++
					emit(&vfScenario{Prop: "C08", Class: []string{"frame", "frame-fx"}[rd], Seed: vfMix(seed, uint64(n)), Cfg: map[string]int64{"nframes": 2, "alloc": int64(lk % 2), "which": int64(cut % 2), "lenkind": int64(lk)},
						Faults: []vfFault{{K: "cut", At: int64(cut), A: int64(kind * 2)}}})
					if rd == 1 && cut%8 == 0 {
						// every (limit, lent buffer) combination of the filexfer reader
						for li := 0; li < 7; li++ {
							for bi := 0; bi < 7; bi++ {
								n++
								emit(&vfScenario{Prop: "C08", Class: "frame-fx", Seed: vfMix(seed, uint64(n)), Cfg: map[string]int64{"nframes": 2, "which": int64(cut % 2), "lenkind": int64(lk), "fxlim": int64(li), "fxbuf": int64(bi)},
									Faults: []vfFault{{K: "cut", At: int64(cut + 60), A: int64(kind * 2)}}})
							}
						}
					}
				}
			}
		}
	}
}

func c08Exec(r *vfRun) {
	switch r.sc.Class {
	case "frame", "frame-fx":
		c08Frame(r)
	case "decode-enum":
		c08DecodeEnum(r)
	default:
		c08DecodeOne(r)
	}
}

// ---------------------------------------------------------------- framing readers on the simulated reader

var c08LenVals = []uint32{0, 0, 1, 4, 256 * 1024, 256*1024 + 1, 0x7fffffff, 0xffffffff, 5}

func c08Frame(r *vfRun) {
	sc, sim := r.sc, r.sim
	fx := sc.Class == "frame-fx"
	corpus := c08Corpus(sc.Seed)
	nf := int(sc.cfg("nframes", 1))
	which := int(sc.cfg("which", 0)) % nf
	lk := int(sc.cfg("lenkind", 0)) % len(c08LenVals)
	type frame struct {
		start, hdrLen int
		declared      uint32
		body          []byte
	}
	var stream []byte
	var frames []frame
	for i := 0; i < nf; i++ {
		body := corpus[int(vfMix(sc.Seed, uint64(i))%uint64(len(corpus)))]
		if fx && len(body) < 5 {
			body = append(body, 0, 0, 0, 0)
		}
		declared := uint32(len(body))
		if i == which && lk > 0 {
			declared = c08LenVals[lk]
		}
		frames = append(frames, frame{start: len(stream), declared: declared, body: body})
		hdr := make([]byte, 4)
		binary.BigEndian.PutUint32(hdr, declared)
		stream = append(stream, hdr...)
		stream = append(stream, body...)
	}
	pipe := sim.newPipe("in")
	pipe.Write(stream)
	cutAt, cutKind := -1, 0
	for _, f := range sc.Faults {
		if f.K == "cut" {
			cutAt, cutKind = int(f.At), int(f.A)
		}
	}
	var cutErr error = io.EOF
	if cutAt >= 0 && cutAt < len(stream) {
		pipe.cutAt = cutAt
		cutErr = []error{io.EOF, io.ErrUnexpectedEOF, vfErrLinkReset}[cutKind%3]
		pipe.cutErr = cutErr
	} else {
		cutAt = len(stream)
		pipe.closeWriter()
	}
	var alloc *allocator
	if sc.cfg("alloc", 0) != 0 && !fx {
		alloc = newAllocator()
	}
	// the filexfer reader takes the limit and a buffer to reuse from its caller
	limit := uint32(256 * 1024)
	var fxbuf []byte
	if fx {
		if li := sc.cfg("fxlim", 0); li > 0 {
			limit = []uint32{256 * 1024, 32, 48, 63, 64, 100, 1024}[int(li)%7]
		}
		if bi := sc.cfg("fxbuf", 0); bi > 0 {
			fxbuf = make([]byte, 0, []int{0, 4, 16, 64, 200, 2000, 300000}[int(bi)%7])
		}
	}
	type result struct {
		typ     byte
		payload []byte
		err     error
		rdOff   int
		alloc   uint64
		panic   string
	}
	var results []result
	done := false
	go func() {
		defer func() {
			sim.mu.Lock()
			done = true
			sim.mu.Unlock()
		}()
		for i := 0; i < nf+1; i++ {
			var res result
			func() {
				defer func() {
					if x := recover(); x != nil {
						res.panic = fmt.Sprintf("%v at %s", x, vfShortStack())
					}
				}()
				var ms0, ms1 runtime.MemStats
				runtime.ReadMemStats(&ms0)
				if fx {
					var p sshfx.RawPacket
					res.err = p.ReadFrom(pipe, fxbuf, limit)
					if res.err == nil {
						res.typ = byte(p.PacketType)
						res.payload = append(binary.BigEndian.AppendUint32(nil, p.RequestID), p.Data.Bytes()...)
					}
				} else {
					var t fxp
					t, res.payload, res.err = recvPacket(pipe, alloc, uint32(i+1))
					res.typ = byte(t)
				}
				runtime.ReadMemStats(&ms1)
				res.alloc = ms1.TotalAlloc - ms0.TotalAlloc
			}()
			sim.mu.Lock()
			res.rdOff = pipe.rdOff
			sim.mu.Unlock()
			results = append(results, res)
			if res.err != nil || res.panic != "" {
				return
			}
		}
	}()
	sim.run(func() bool { sim.mu.Lock(); defer sim.mu.Unlock(); return done })
	if sim.failed() {
		return
	}
	if !done {
		r.fail("C08/framing-reader-hangs", "hang", "the framing reader neither returned a packet nor an error although the stream had ended (stream %d bytes, end at %d)", len(stream), cutAt)
		return
	}
	// oracle
	for i, res := range results {
		if res.panic != "" {
			r.fail("C08/panic", "frame-reader", "framing reader panicked: %s", res.panic)
			return
		}
		if res.alloc > 1<<20+64*uint64(len(stream)) {
			r.fail("C08/allocation-out-of-proportion", "frame-reader", "reading frame %d allocated %d bytes for a %d-byte stream", i, res.alloc, len(stream))
			return
		}
		if i >= len(frames) {
			if res.err == nil {
				r.fail("C08/packet-from-nothing", "extra", "a packet was returned after the last frame")
			}
			return
		}
		f := frames[i]
		avail := cutAt - f.start // bytes of this frame (header included) the stream can deliver
		what := fmt.Sprintf("frame %d at offset %d declares %d bytes, has %d; the stream ends after %d bytes with %v", i, f.start, f.declared, len(f.body), cutAt, cutErr)
		minLen := uint32(1)
		if fx {
			minLen = 5
		}
		switch {
		case avail < 4:
			if res.err == nil {
				r.fail("C08/short-packet-delivered", "header-cut", "a packet was returned although the stream ends inside the length prefix; %s", what)
			}
			return
		case f.declared < minLen || f.declared > limit:
			if res.err == nil {
				r.fail("C08/bad-length-accepted", fmt.Sprintf("len-%d", lk), "a frame with declared length %d was accepted; %s", f.declared, what)
				return
			}
			if res.rdOff != f.start+4 {
				r.fail("C08/body-read-before-refusal", fmt.Sprintf("len-%d", lk), "the frame was refused (%v) but %d bytes beyond its length prefix had been consumed from the stream; %s", res.err, res.rdOff-f.start-4, what)
				return
			}
			sim.count("probe.bad_length_refused_before_body")
			return
		case avail < 4+int(f.declared):
			if res.err == nil {
				r.fail("C08/short-packet-delivered", "body-cut", "a packet of %d payload bytes was delivered although the declared %d bytes are not all there; %s", len(res.payload)+1, f.declared, what)
				return
			}
			if cutErr != io.EOF && !errors.Is(res.err, cutErr) {
				r.fail("C08/read-error-lost", "body-cut", "the reader failed with %v but the framing reader reported %v; %s", cutErr, res.err, what)
				return
			}
			sim.count("probe.truncated_frame_reported")
			return
		default:
			// complete frame (its declared length may differ from the generated body: then the following bytes belong to it)
			if res.err != nil {
				r.fail("C08/complete-frame-rejected", "complete", "a complete frame was rejected with %v; %s", res.err, what)
				return
			}
			raw := stream[f.start+4 : f.start+4+int(f.declared)]
			got := append([]byte{res.typ}, res.payload...)
			if string(got) != string(raw) {
				r.fail("C08/wrong-bytes-delivered", "complete", "delivered % x, the frame holds % x; %s", got, raw, what)
				return
			}
			if int(f.declared) != len(f.body) {
				return // the rest of the stream is no longer frame-aligned by construction
			}
		}
	}
	r.res.NonTrivial = true
}

// ---------------------------------------------------------------- decoding entry points

// c08Decode runs every decoding entry point that accepts this kind of body; it returns a description of the
// first panic or allocation excess.
func c08Decode(body []byte) (string, string) {
	if len(body) == 0 {
		return "", ""
	}
	run := func(name string, f func()) (msg string) {
		defer func() {
			if x := recover(); x != nil {
				msg = fmt.Sprintf("%s panicked: %v at %s", name, x, vfShortStack())
			}
		}()
		var ms0, ms1 runtime.MemStats
		runtime.ReadMemStats(&ms0)
		f()
		runtime.ReadMemStats(&ms1)
		if grown := ms1.TotalAlloc - ms0.TotalAlloc; grown > 1<<20+64*uint64(len(body)) {
			return fmt.Sprintf("%s allocated %d bytes while decoding %d input bytes", name, grown, len(body))
		}
		return ""
	}
	payload := body[1:]
	type ep struct {
		name string
		f    func()
	}
	eps := []ep{
		{"makePacket", func() { makePacket(rxPacket{fxp(body[0]), payload}) }},
		{"sshfx.RequestPacket.UnmarshalBinary", func() { var p sshfx.RequestPacket; p.UnmarshalBinary(body) }},
		{"sshfx.RawPacket+body", func() {
			var p sshfx.RawPacket
			if p.UnmarshalBinary(body) != nil {
				return
			}
			buf := sshfx.NewBuffer(p.Data.Bytes())
			switch p.PacketType {
			case sshfx.PacketTypeStatus:
				var x sshfx.StatusPacket
				x.UnmarshalPacketBody(buf)
			case sshfx.PacketTypeHandle:
				var x sshfx.HandlePacket
				x.UnmarshalPacketBody(buf)
			case sshfx.PacketTypeData:
				var x sshfx.DataPacket
				x.UnmarshalPacketBody(buf)
			case sshfx.PacketTypeName:
				var x sshfx.NamePacket
				x.UnmarshalPacketBody(buf)
			case sshfx.PacketTypeAttrs:
				var x sshfx.AttrsPacket
				x.UnmarshalPacketBody(buf)
			case sshfx.PacketTypeExtendedReply:
				var x sshfx.ExtendedReplyPacket
				x.UnmarshalPacketBody(buf)
			}
		}},
		{"sshfx.InitPacket", func() { var p sshfx.InitPacket; p.UnmarshalBinary(payload) }},
		{"sshfx.VersionPacket", func() { var p sshfx.VersionPacket; p.UnmarshalBinary(payload) }},
		{"sshfx.Attributes", func() { var a sshfx.Attributes; a.UnmarshalBinary(payload) }},
		{"sshfx.NameEntry", func() { var e sshfx.NameEntry; e.UnmarshalBinary(payload) }},
		{"unmarshalAttrs", func() { unmarshalAttrs(payload) }},
		{"unmarshalStatus", func() {
			if len(payload) >= 4 {
				unmarshalStatus(binary.BigEndian.Uint32(payload), payload)
			} else {
				unmarshalStatus(0, payload)
			}
		}},
		{"unmarshalData/Handle/SingleName/AttrsPacket", func() {
			var id uint32
			if len(payload) >= 4 {
				id = binary.BigEndian.Uint32(payload)
			}
			unmarshalData(id, payload)
			unmarshalHandle(id, payload)
			unmarshalSingleName(id, payload)
			unmarshalAttrsPacket(id, payload)
		}},
		{"unmarshalExtensionPair", func() { unmarshalExtensionPair(payload) }},
		{"sshFxInitPacket/Version", func() { (&sshFxInitPacket{}).UnmarshalBinary(payload) }},
		{"sshFxpDataPacket", func() { (&sshFxpDataPacket{}).UnmarshalBinary(payload) }},
	}
	for _, e := range eps {
		if m := run(e.name, e.f); m != "" {
			return m, e.name
		}
	}
	return "", ""
}

func c08DecodeOne(r *vfRun) {
	sc := r.sc
	if len(sc.Faults) == 0 {
		return
	}
	corpus := c08Corpus(sc.Seed)
	f := sc.Faults[0]
	body := c08Mutate(corpus[int(f.At)%len(corpus)], f)
	if m, ep := c08Decode(body); m != "" {
		cls := "C08/panic"
		if !containsPanic(m) {
			cls = "C08/allocation-out-of-proportion"
		}
		r.fail(cls, ep, "%s; input % x (mutation %+v)", m, vfHead(body), f)
		return
	}
	// the filexfer packets that keep their Data slice for reuse: decoding one body after another into the same packet
	// must give what decoding into a fresh one gives (lengths that shrink and grow within the old capacity)
	if m := ""; sc.Seed%40 == 0 && func() bool { m = c08EveryLength(sc.Seed); return m != "" }() {
		sig := "every-length"
		if containsPanic(m) {
			r.fail("C08/panic", sig, "%s", m)
		} else {
			r.fail("C08/short-or-wrong-frame", sig, "%s", m)
		}
		return
	}
	if m := c08Reuse(sc.Seed); m != "" {
		r.fail("C08/short-packet-delivered", "reuse", "%s", m)
		return
	}
	r.sim.count("probe.decode_cases")
	r.res.NonTrivial = true
}

func c08Reuse(seed uint64) (msg string) {
	defer func() {
		if x := recover(); x != nil {
			msg = fmt.Sprintf("decoding into a reused packet panicked: %v", x)
		}
	}()
	var dp sshfx.DataPacket
	var wp sshfx.WritePacket
	for k := 0; k < 4; k++ {
		n := int(vfMix(seed, uint64(k)) % 120)
		if k == 1 {
			n = n % 12 // a short one after a long one ...
		}
		data := vfFill(seed^uint64(k), 0, n)
		body := binary.BigEndian.AppendUint32(nil, uint32(n))
		body = append(body, data...)
		if err := dp.UnmarshalPacketBody(sshfx.NewBuffer(append([]byte(nil), body...))); err != nil || string(dp.Data) != string(data) {
			return fmt.Sprintf("DataPacket decoded into a reused packet (decode number %d, %d bytes): got %d bytes % x, err %v; the body holds % x", k, n, len(dp.Data), vfHead(dp.Data), err, vfHead(data))
		}
		wbody := binary.BigEndian.AppendUint32(nil, 1)
		wbody = append(wbody, 'h')
		wbody = binary.BigEndian.AppendUint64(wbody, uint64(k))
		wbody = append(wbody, body...)
		if err := wp.UnmarshalPacketBody(sshfx.NewBuffer(wbody)); err != nil || string(wp.Data) != string(data) || wp.Handle != "h" || wp.Offset != uint64(k) {
			return fmt.Sprintf("WritePacket decoded into a reused packet (decode number %d, %d bytes): got %d bytes, handle %q offset %d, err %v", k, n, len(wp.Data), wp.Handle, wp.Offset, err)
		}
		// ... and every truncation of a body that declares fewer bytes than the reused packet can already hold: the
		// declared length exceeds what is there, which is an error whatever the packet held before
		if k >= 1 && n >= 2 {
			for cut := 4; cut < len(body); cut++ {
				var dp2 sshfx.DataPacket
				dp2.Data = make([]byte, 0, 256)
				dp2.UnmarshalPacketBody(sshfx.NewBuffer(append(binary.BigEndian.AppendUint32(nil, 200), vfFill(seed^77, 0, 200)...)))
				if err := dp2.UnmarshalPacketBody(sshfx.NewBuffer(append([]byte(nil), body[:cut]...))); err == nil {
					return fmt.Sprintf("DataPacket: a body that declares %d data bytes but carries %d was decoded into a reused packet without an error (got %d bytes % x)", n, cut-4, len(dp2.Data), vfHead(dp2.Data))
				}
			}
		}
	}
	return ""
}

// c08EveryLength: a well-formed frame of every declared length 1..1100 through recvPacket (allocator off and on): the
// packet comes back whole, or an error - never a panic, never short.
func c08EveryLength(seed uint64) (msg string) {
	L := 0
	defer func() {
		if x := recover(); x != nil {
			msg = fmt.Sprintf("recvPacket panicked on a well-formed frame of declared length %d: %v", L, x)
		}
	}()
	for _, withAlloc := range []bool{false, true} {
		var a *allocator
		if withAlloc {
			a = newAllocator()
		}
		for L = 1; L <= 1100; L++ {
			body := vfFill(seed^uint64(L), 0, L)
			body[0] = 200 // some type byte
			frame := append(binary.BigEndian.AppendUint32(nil, uint32(L)), body...)
			typ, data, err := recvPacket(bytes.NewReader(frame), a, uint32(L))
			if err != nil || typ != 200 || !bytes.Equal(data, body[1:]) {
				return fmt.Sprintf("recvPacket (allocator %v) on a well-formed frame of declared length %d: type %d, %d body bytes, err %v", withAlloc, L, typ, len(data), err)
			}
			if a != nil {
				a.ReleasePages(uint32(L))
			}
		}
	}
	return ""
}

func containsPanic(s string) bool {
	for i := 0; i+8 <= len(s); i++ {
		if s[i:i+8] == "panicked" {
			return true
		}
	}
	return false
}

// c08DecodeEnum: for one corpus item, every truncation point / every field position x 6 values / every type byte.
func c08DecodeEnum(r *vfRun) {
	sc := r.sc
	corpus := c08Corpus(sc.Seed)
	item := corpus[int(sc.cfg("item", 0))%len(corpus)]
	n := 0
	try := func(f vfFault) bool {
		body := c08Mutate(item, f)
		n++
		if m, ep := c08Decode(body); m != "" {
			cls := "C08/panic"
			if !containsPanic(m) {
				cls = "C08/allocation-out-of-proportion"
			}
			r.fail(cls, ep, "%s; input % x (corpus item %d, mutation %+v)", m, vfHead(body), sc.cfg("item", 0), f)
			return false
		}
		return true
	}
	switch sc.cfg("family", 0) {
	case 0:
		for cut := 0; cut <= len(item); cut++ {
			if !try(vfFault{A: 0, B: int64(cut)}) {
				return
			}
		}
	case 1:
		for pos := 0; pos+4 <= len(item); pos++ {
			for vi := 0; vi < len(c08Vals6); vi++ {
				if !try(vfFault{A: 1, B: int64(pos), S: fmt.Sprint(vi)}) {
					return
				}
			}
		}
	default:
		for t := 0; t < 256; t++ {
			if !try(vfFault{A: 2, B: int64(t)}) {
				return
			}
		}
	}
	r.sim.countN("probe.decode_cases", n)
	r.res.NonTrivial = true
}
