//go:build verif

package sftp

// C01 — transferred bytes are exactly the file's bytes.
// Also hosts the shared reference model of a remote File (refFile) used by C12.

import (
	"bytes"
	"fmt"
	"io"
	"math"
	"math/rand/v2"
	"os"
	"time"
)

func init() {
	vfRegister(&vfProp{
		id:       "C01",
		classes:  []string{"os", "os-alloc", "rs", "rs-alloc", "peer", "rs-park", "inmem"},
		gen:      c01Gen,
		exec:     c01Exec,
		maxSteps: 200000,
	})
}

// refFile: a byte array with the semantics of a regular file plus an os.File-like offset.
type refFile struct {
	data []byte
	off  int64
}

func (f *refFile) writeAt(b []byte, off int64) {
	if len(b) == 0 {
		return // a zero-length write does not extend a regular file
	}
	end := off + int64(len(b))
	if end > int64(len(f.data)) {
		f.data = append(f.data, make([]byte, end-int64(len(f.data)))...)
	}
	copy(f.data[off:], b)
}

func (f *refFile) readAt(n int, off int64) ([]byte, error) {
	if off >= int64(len(f.data)) {
		if n == 0 {
			return nil, nil
		}
		return nil, io.EOF
	}
	b := f.data[off:]
	if len(b) > n {
		return b[:n], nil
	}
	if len(b) < n {
		return b, io.EOF
	}
	return b, nil
}

func vfBoundary(rng *rand.Rand, P, M int) int {
	set := []int{0, 1, P - 1, P, P + 1, 2*P - 1, 2 * P, 2*P + 1, P*M - 1, P * M, P*M + 1, 2*P*M + 1, 3 * P, 3*P + 1}
	if rng.IntN(4) == 0 {
		return rng.IntN(3*P*M + 3)
	}
	v := set[rng.IntN(len(set))]
	if v < 0 {
		v = 0
	}
	if v > 6000 && P <= 32768 {
		v = 6000 // keep files tiny; P and M are drawn small when their product matters
	}
	if v > 450000 {
		v = 450000
	}
	return v
}

func c01GenOps(rng *rand.Rand, P, M, nops int, withTruncate bool) []vfOp {
	var ops []vfOp
	for i := 0; i < nops; i++ {
		x := rng.IntN(100)
		n := vfBoundary(rng, P, M)
		off := int64(vfBoundary(rng, P, M))
		if rng.IntN(3) == 0 {
			off = int64(rng.IntN(2*P + 1))
		}
		switch {
		case x < 12:
			ops = append(ops, vfOp{K: "write", N: n, B: int64(rng.IntN(1 << 20))})
		case x < 26:
			ops = append(ops, vfOp{K: "writeat", Off: off, N: n, B: int64(rng.IntN(1 << 20))})
		case x < 38:
			kind := rng.IntN(7)
			hint := []int{0, 0, 0, 1, -1, -n, P, 2 * P * M}[rng.IntN(8)]
			chunk := []int{0, 0, 1, P - 1, P, P + 1}[rng.IntN(6)]
			if chunk < 0 {
				chunk = 0
			}
			ops = append(ops, vfOp{K: "readfrom", N: n, B: int64(rng.IntN(1 << 20)), S: fmt.Sprintf("%d,%d,-1,%d", kind, hint, chunk)})
		case x < 48:
			ops = append(ops, vfOp{K: "readfromc", N: n, A: int64([]int{-1, 0, 1, 2, M, M + 1}[rng.IntN(6)]), B: int64(rng.IntN(1 << 20)), S: fmt.Sprintf("4,0,-1,%d", []int{0, 1, P + 1}[rng.IntN(3)])})
		case x < 60:
			ops = append(ops, vfOp{K: "read", N: n})
		case x < 76:
			ops = append(ops, vfOp{K: "readat", Off: off, N: n})
		case x < 86:
			ops = append(ops, vfOp{K: "writeto", A: int64(rng.IntN(2))}) // A=1: a sink the scheduler paces
		case x < 96 || !withTruncate:
			wh := rng.IntN(3)
			o := off
			if wh != 0 && rng.IntN(2) == 0 {
				o = -int64(rng.IntN(2*P + 1))
			}
			if wh != 0 && rng.IntN(10) == 0 {
				// relative seeks whose target does not fit an int64 (it wraps to a negative number): rejected, no move
				o = math.MaxInt64 - int64(rng.IntN(3))
			}
			ops = append(ops, vfOp{K: "seek", Off: o, A: int64(wh)})
		default:
			ops = append(ops, vfOp{K: "truncate", Off: off})
		}
	}
	return ops
}

func c01Gen(class string, seed uint64, tier string) *vfScenario {
	rng := vfRng(seed, 1)
	sc := &vfScenario{Cfg: map[string]int64{}}
	P := []int{1, 2, 3, 4, 5, 7, 8, 16, 32, 64, 1000, 32768}[rng.IntN(12)]
	M := []int{1, 2, 3, 4, 5, 8, 64}[rng.IntN(7)]
	if P*M > 4000 {
		M = 1 + rng.IntN(3)
	}
	sc.Cfg["P"], sc.Cfg["M"] = int64(P), int64(M)
	sc.Cfg["concr"] = int64(rng.IntN(2))
	sc.Cfg["concw"] = int64(rng.IntN(2))
	sc.Cfg["fstat"] = int64(rng.IntN(2))
	sc.Cfg["size0"] = int64(vfBoundary(rng, P, M))
	switch class {
	case "os":
		sc.Cfg["kind"] = 0
	case "os-alloc":
		sc.Cfg["kind"], sc.Cfg["alloc"] = 0, 1
	case "rs":
		sc.Cfg["kind"] = 1
	case "rs-alloc":
		sc.Cfg["kind"], sc.Cfg["alloc"] = 1, 1
	case "rs-park":
		sc.Cfg["kind"], sc.Cfg["parkdata"] = 1, 1
		sc.Cfg["alloc"] = int64(rng.IntN(2))
		sc.Cfg["eofstyle"] = int64(rng.IntN(3))
	case "peer":
		sc.Cfg["kind"] = 2
	case "inmem":
		sc.Cfg["kind"] = 3 // the package's own in-memory backend behind a RequestServer
		sc.Cfg["alloc"] = int64(rng.IntN(2))
	}
	if sc.Cfg["kind"] == 1 {
		sc.Cfg["hopt"] = 1 // OpenFile: read and write on one handle
	}
	if rng.IntN(4) == 0 && sc.Cfg["kind"] != 2 {
		sc.Cfg["maxtx"] = int64(32768 + rng.IntN(100000))
	}
	sc.Cfg["ssites"] = int64(1 + rng.IntN(3))
	sc.Cfg["csites"] = 1 | 2 | 4
	if mt := sc.Cfg["maxtx"]; mt != 0 && rng.IntN(2) == 0 {
		// a client packet size above the default maximum payload but within the server's configured one
		if mt > 200000 {
			mt = 200000
			sc.Cfg["maxtx"] = mt
		}
		P = int(mt) - rng.IntN(3)
		M = 1 + rng.IntN(3)
		sc.Cfg["P"], sc.Cfg["M"] = int64(P), int64(M)
		sc.Cfg["size0"] = int64([]int{P - 1, P, P + 1, 2*P + 1, P + P/2}[rng.IntN(5)])
		sc.Cfg["nofragc"] = 1
	}
	nops := 1 + rng.IntN(6)
	if sc.Cfg["P"] > 32768 {
		nops = 1 + rng.IntN(2)
	}
	sc.Ops = c01GenOps(rng, P, M, nops, false)
	if class == "inmem" {
		c01NoEmptyWrites(sc.Ops)
	}
	if rng.IntN(4) == 0 {
		// a read-only handle (the request server serves it through a different path than a read-write one)
		sc.Cfg["rdonly"] = 1
		var ro []vfOp
		for _, op := range sc.Ops {
			switch op.K {
			case "read", "readat", "writeto", "seek":
				ro = append(ro, op)
			}
		}
		if len(ro) == 0 {
			ro = []vfOp{{K: "readat", Off: 0, N: vfBoundary(rng, P, M) + 1}, {K: "writeto", A: int64(rng.IntN(2))}}
		}
		sc.Ops = ro
	}
	return sc
}

// c01NoEmptyWrites: the package's in-memory example backend extends a file when a zero-length write names an offset
// beyond its end (a regular file does not; that is the example store's own semantics, not the transfer's, and says
// nothing about what the client and server moved), so programs for that backend contain no zero-length writes.
func c01NoEmptyWrites(ops []vfOp) {
	for i := range ops {
		if (ops[i].K == "write" || ops[i].K == "writeat") && ops[i].N == 0 {
			ops[i].N = 1
		}
	}
}

// c01HasEmptyWrite: true for programs (shrunk ones) outside that domain.
func c01HasEmptyWrite(ops []vfOp) bool {
	for _, op := range ops {
		if (op.K == "write" || op.K == "writeat") && op.N == 0 {
			return true
		}
	}
	return false
}

// vfFileSystem wires a real Client to one of: os-backed Server, RequestServer on simfs, scripted peer.
type vfFileSystem struct {
	sim    *vfSim
	kind   int
	srv    *vfServer
	peer   *vfScriptServer
	fs     *sfs
	root   string
	c      *Client
	name   string // name used through the client
	served func() []byte
}

func vfStartFileSystem(r *vfRun, initial []byte) (*vfFileSystem, error) {
	sc, sim := r.sc, r.sim
	v := &vfFileSystem{sim: sim, kind: int(sc.cfg("kind", 0))}
	alloc := sc.cfg("alloc", 0) != 0
	maxTx := uint32(sc.cfg("maxtx", 0))
	vfServerSites(sim, sc.cfg("ssites", 3))
	vfClientSites(sim, sc.cfg("csites", 7))
	var c2s, s2c *vfPipe
	switch v.kind {
	case 0:
		v.root = vfNewTree()
		os.WriteFile(v.root+"/f", initial, 0o644)
		v.srv = vfStartServer(sim, 0, alloc, nil, 0, v.root, false, "", maxTx)
		c2s, s2c = v.srv.c2s, v.srv.s2c
		v.name = "f"
		v.served = func() []byte { b, _ := os.ReadFile(v.root + "/f"); return b }
	case 1:
		v.fs = newSfs(sim)
		v.fs.addFile("/f", initial)
		v.fs.parkData = sc.cfg("parkdata", 0) != 0
		v.fs.parkAfter = sc.cfg("parkafter", 0) != 0
		v.fs.eofStyle = int(sc.cfg("eofstyle", 0))
		v.srv = vfStartServer(sim, 1, alloc, v.fs, int(sc.cfg("hopt", 1)), "", false, "", maxTx)
		c2s, s2c = v.srv.c2s, v.srv.s2c
		v.name = "/f"
		v.served = func() []byte { b, _ := v.fs.fileData("/f"); return b }
	case 3:
		// the package's own in-memory example backend behind a RequestServer
		h := InMemHandler()
		mem := h.FileGet.(*root)
		mem.files["/f"] = &memFile{name: "f", modtime: time.Unix(946684800, 0), content: append([]byte(nil), initial...)}
		sim.ticks = true // its WriteAt sleeps (on the bubble's clock)
		srv := &vfServer{sim: sim, kind: 1}
		srv.c2s = sim.newPipe("c2s")
		srv.s2c = sim.newPipe("s2c")
		srv.end = &vfEnd{r: srv.c2s, w: srv.s2c, closeBoth: true}
		var opts []RequestServerOption
		if alloc {
			opts = append(opts, vfRSAllocOpt())
		}
		if maxTx != 0 {
			opts = append(opts, WithRSMaxTxPacket(maxTx))
		}
		rs := NewRequestServer(srv.end, h, vfShuffleOpts(opts)...)
		srv.rs = rs
		go func() {
			err := rs.Serve()
			srv.mu.Lock()
			srv.done, srv.err = true, err
			srv.mu.Unlock()
			srv.end.Close()
		}()
		v.srv = srv
		c2s, s2c = srv.c2s, srv.s2c
		v.name = "/f"
		v.served = func() []byte {
			mem.mu.Lock()
			f := mem.files["/f"]
			mem.mu.Unlock()
			if f == nil {
				return nil
			}
			f.mu.RLock()
			defer f.mu.RUnlock()
			return append([]byte(nil), f.content...)
		}
	default:
		v.peer = vfNewScriptServer(sim)
		v.peer.files["/f"] = append([]byte(nil), initial...)
		if sc.cfg("fsyncext", 0) != 0 {
			v.peer.exts = [][2]string{{"fsync@openssh.com", "1"}}
		}
		c2s, s2c = v.peer.c2s, v.peer.s2c
		v.name = "/f"
		v.served = func() []byte {
			v.peer.mu.Lock()
			defer v.peer.mu.Unlock()
			return append([]byte(nil), v.peer.files["/f"]...)
		}
	}
	if sc.cfg("nofragc", 0) != 0 {
		c2s.noFrag, s2c.noFrag = true, true
	}
	P, M := int(sc.cfg("P", 4)), int(sc.cfg("M", 2))
	c, err := vfStartClient(sim, c2s, s2c, MaxPacketUnchecked(P), MaxConcurrentRequestsPerFile(M),
		UseConcurrentReads(sc.cfg("concr", 1) != 0), UseConcurrentWrites(sc.cfg("concw", 0) != 0), UseFstat(sc.cfg("fstat", 0) != 0))
	v.c = c
	return v, err
}

func (v *vfFileSystem) cleanup() {
	if v.root != "" {
		vfRemoveTree(v.root)
	}
}

// c01HugeSeekLands: a relative seek by nearly MaxInt64 that does NOT overflow (base 0) would park the offset at the end
// of the number line, where no backend can follow; such a call is not made.
func c01HugeSeekLands(ref *refFile, op vfOp) bool {
	if op.K != "seek" || op.Off < 1<<60 {
		return false
	}
	base := int64(0)
	switch op.A {
	case 1:
		base = ref.off
	case 2:
		base = int64(len(ref.data))
	}
	return base+op.Off >= 0
}

// c01Apply executes the reference semantics of op and compares with the observed result.
// It returns a non-empty message on mismatch.
func c01Apply(ref *refFile, res *vfOpResult, closed bool) string {
	op := res.Op
	switch op.K {
	case "write":
		ref.writeAt(res.Data, ref.off)
		ref.off += int64(op.N)
		if res.Err != nil || res.N != int64(op.N) {
			return fmt.Sprintf("Write(%d bytes) = (%d, %v)", op.N, res.N, res.Err)
		}
	case "writeat":
		if op.N > 0 {
			ref.writeAt(res.Data, op.Off)
		}
		if res.Err != nil || res.N != int64(op.N) {
			return fmt.Sprintf("WriteAt(%d bytes, %d) = (%d, %v)", op.N, op.Off, res.N, res.Err)
		}
	case "readfrom", "readfromc":
		var kind, hd, failAt, ch int
		failAt = -1
		fmt.Sscanf(op.S, "%d,%d,%d,%d", &kind, &hd, &failAt, &ch)
		if failAt >= 0 && failAt <= op.N {
			// the source fails after failAt bytes: those bytes are written, the offset advances by them,
			// and the source's error is returned
			if failAt > 0 {
				ref.writeAt(res.Data[:failAt], ref.off)
			}
			ref.off += int64(failAt)
			if res.Err != vfErrSource || res.N != int64(failAt) {
				return fmt.Sprintf("%s(source failing after %d of %d bytes) = (%d, %v), want (%d, source error)", op.K, failAt, op.N, res.N, res.Err, failAt)
			}
			return ""
		}
		if op.N > 0 {
			ref.writeAt(res.Data, ref.off)
		}
		ref.off += int64(op.N)
		if res.Err != nil || res.N != int64(op.N) {
			return fmt.Sprintf("%s(source of %d bytes, %s) = (%d, %v)", op.K, op.N, op.S, res.N, res.Err)
		}
		if res.SrcRead != int64(op.N) {
			return fmt.Sprintf("%s consumed %d of the source's %d bytes", op.K, res.SrcRead, op.N)
		}
	case "read":
		want, werr := ref.readAt(op.N, ref.off)
		ref.off += int64(len(want))
		if res.N != int64(len(want)) || !bytes.Equal(res.Data[:res.N], want) {
			return fmt.Sprintf("Read(%d) returned %d bytes %x, the file has %x there", op.N, res.N, res.Data[:res.N], want)
		}
		if res.Err != werr {
			return fmt.Sprintf("Read(%d) returned error %v, want %v", op.N, res.Err, werr)
		}
	case "readat":
		want, werr := ref.readAt(op.N, op.Off)
		if res.N != int64(len(want)) || !bytes.Equal(res.Data[:res.N], want) {
			return fmt.Sprintf("ReadAt(%d, %d) returned %d bytes %x, the file has %x there", op.N, op.Off, res.N, res.Data[:res.N], want)
		}
		if res.Err != werr {
			return fmt.Sprintf("ReadAt(%d, %d) returned error %v, want %v", op.N, op.Off, res.Err, werr)
		}
	case "writeto":
		var want []byte
		if ref.off < int64(len(ref.data)) {
			want = ref.data[ref.off:]
		}
		ref.off += int64(len(want))
		if res.Err != nil || res.N != int64(len(want)) || !bytes.Equal(res.SinkGot, want) {
			return fmt.Sprintf("WriteTo = (%d, %v), sink got %d bytes %x; the rest of the file is %d bytes %x", res.N, res.Err, len(res.SinkGot), res.SinkGot, len(want), want)
		}
	case "seek":
		var target int64
		switch op.A {
		case 0:
			target = op.Off
		case 1:
			target = ref.off + op.Off
		case 2:
			target = int64(len(ref.data)) + op.Off
		default:
			if res.Err == nil {
				return fmt.Sprintf("Seek with whence %d succeeded", op.A)
			}
			return ""
		}
		if target < 0 {
			if res.Err == nil {
				return fmt.Sprintf("Seek(%d, %d) to a negative position succeeded (pos=%d)", op.Off, op.A, res.Pos)
			}
			return ""
		}
		ref.off = target
		if res.Err != nil || res.Pos != target {
			return fmt.Sprintf("Seek(%d, %d) = (%d, %v), want %d", op.Off, op.A, res.Pos, res.Err, target)
		}
	case "truncate":
		if op.Off <= int64(len(ref.data)) {
			ref.data = ref.data[:op.Off]
		} else {
			ref.data = append(ref.data, make([]byte, op.Off-int64(len(ref.data)))...)
		}
		if res.Err != nil {
			return fmt.Sprintf("Truncate(%d) = %v", op.Off, res.Err)
		}
	}
	return ""
}

func c01Exec(r *vfRun) {
	sc, sim := r.sc, r.sim
	initial := vfFill(sc.Seed^5, 0, int(sc.cfg("size0", 0)))
	v, err := vfStartFileSystem(r, initial)
	defer v.cleanup()
	if err != nil {
		r.fail("C01/handshake", "handshake", "handshake failed: %v", err)
		return
	}
	env := &vfClientEnv{sim: sim, prop: "C01", c: v.c, files: map[int]*File{}, tag: sc.Seed}
	ref := &refFile{data: append([]byte(nil), initial...)}
	openFlags := int64(os.O_RDWR)
	if sc.cfg("rdonly", 0) != 0 {
		openFlags = 0 // Client.Open: read-only
		for _, op := range sc.Ops {
			switch op.K {
			case "read", "readat", "writeto", "seek":
			default:
				r.res.Skipped = "invalid-program"
				return
			}
		}
	}
	if v.kind == 3 && c01HasEmptyWrite(sc.Ops) {
		r.res.Skipped = "invalid-program"
		return
	}
	prog := append([]vfOp{{K: "open", P: v.name, H: 0, A: openFlags}}, sc.Ops...)
	results := make([]*vfOpResult, len(prog))
	var mismatch string
	chunks := 0
	tk := vfSpawnTask(sim, 0, len(prog), func(i int) {
		if mismatch != "" {
			return
		}
		if i > 0 && c01HugeSeekLands(ref, prog[i]) {
			results[i] = &vfOpResult{Op: prog[i], Returned: true}
			return
		}
		res := env.do(prog[i])
		results[i] = res
		if i == 0 {
			if res.Err != nil {
				mismatch = fmt.Sprintf("open failed: %v", res.Err)
			}
			return
		}
		if m := c01Apply(ref, res, false); m != "" {
			mismatch = fmt.Sprintf("op %d %+v: %s", i-1, prog[i], m)
			return
		}
		// after every operation the served content equals the reference
		if got := v.served(); !bytes.Equal(got, ref.data) {
			mismatch = fmt.Sprintf("after op %d %+v the served file differs from the reference: served %d bytes %x, reference %d bytes %x", i-1, prog[i], len(got), vfHead(got), len(ref.data), vfHead(ref.data))
		}
		if n := prog[i].N; n > int(sc.cfg("P", 4)) {
			chunks++
		}
	})
	sim.run(tk.finished)
	if sim.failed() {
		return
	}
	if !tk.finished() {
		r.fail("C01/call-never-returned", "liveness", "transfer did not finish (steps=%d stuck=%v): blocked %v", sim.steps, sim.stuck, vfBubbleGoroutines())
		return
	}
	if mismatch != "" {
		r.fail("C01/mismatch", c01Sig(mismatch), "%s   [cfg=%v]", mismatch, sc.Cfg)
		return
	}
	if v.peer != nil && v.peer.bad != nil {
		r.fail("C01/request-stream-malformed", "framing", "%v", v.peer.bad)
		return
	}
	r.res.NonTrivial = chunks > 0
	if chunks > 0 {
		sim.count("probe.multi_chunk_transfer")
	}
}

func c01Sig(m string) string {
	for _, k := range []string{"Write(", "WriteAt(", "readfromc", "readfrom", "Read(", "ReadAt(", "WriteTo", "Seek", "served file", "open failed", "Truncate"} {
		if bytes.Contains([]byte(m), []byte(k)) {
			return k
		}
	}
	return "other"
}

func vfHead(b []byte) []byte {
	if len(b) > 48 {
		return b[:48]
	}
	return b
}
