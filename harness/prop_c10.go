//go:build verif

package sftp

// C10 — the request server is a faithful adapter in both directions.

import (
	"bytes"
	"context"
	"errors"
	"fmt"
	"io"
	"math/rand/v2"
	"os"
	"path"
	"strings"
	"syscall"
)

func init() {
	vfRegister(&vfProp{
		id:        "C10",
		classes:   []string{"inbound", "inbound", "outbound"},
		gen:       c10Gen,
		exec:      c10Exec,
		enumerate: c10Enumerate,
		valid:     vfValidSessionProgram,
		maxSteps:  40000,
	})
}

var c10StartDirs = []string{"/", "/home/u", "/a/../b/", "rel/dir", "", "/x//y/./z/"}
var c10PathPool = []string{"f0", "/f0", "", ".", "..", "../..", "a/../../b", "//f0", "f0/", "d/./a", "d//a/", "/d/../d/a", "\xff\xfe", "./", "/", "x/" + "y/.././z", "a b", strings.Repeat("p/", 40) + "q", "nx", "/../f0", "d/a/../../f1",
	// a backslash is an ordinary character of a name here, not a separator
	"/pub\\..\\..\\etc", "a\\b", "d/..\\x"}

func c10HandlerOpts(rng *rand.Rand) int64 {
	return int64([]int{0, 1, 2, 4, 1 | 2 | 4, 8, 16, 32, 64, 128, 1 | 2 | 4 | 128, 1 | 8, 2 | 16}[rng.IntN(13)])
}

func c10Gen(class string, seed uint64, tier string) *vfScenario {
	rng := vfRng(seed, 1)
	sc := &vfScenario{Cfg: map[string]int64{"kind": 1}}
	sc.Cfg["startdir"] = int64(rng.IntN(len(c10StartDirs)))
	sc.Cfg["hopt"] = c10HandlerOpts(rng)
	sc.Cfg["alloc"] = int64(rng.IntN(2))
	sc.Cfg["sites"] = int64(1 + rng.IntN(3))
	pp := func() string { return c10PathPool[rng.IntN(len(c10PathPool))] }
	if class == "outbound" {
		sc.Cfg["startdir"] = 0
		sc.Cfg["hopt"] = int64([]int{1 | 2 | 4 | 128, 1 | 2 | 4, 1 | 128}[rng.IntN(3)])
		n := 1 + rng.IntN(4)
		for i := 0; i < n; i++ {
			k := []string{"stat", "lstat", "open", "readat", "writeat", "mkdir", "readdir", "readlink", "statvfs", "posixrename", "rename", "remove", "truncate", "symlink", "link", "realpath"}[rng.IntN(16)]
			sc.Ops = append(sc.Ops, vfOp{K: k, A: int64(rng.IntN(len(c10Errors))), B: int64(rng.IntN(4))})
		}
		return sc
	}
	sc.Cfg["window"] = int64([]int{1, 1, 4}[rng.IntN(3)])
	sc.Ops = []vfOp{{K: "init", A: 3}}
	slot := 0
	var open, dirs []int
	n := 1 + rng.IntN(14)
	for i := 0; i < n; i++ {
		switch x := rng.IntN(100); {
		case x < 18:
			sc.Ops = append(sc.Ops, vfOp{K: "open", P: pp(), A: int64(rng.IntN(64)), B: int64([]int{0, 0, waPerm, waSize | waTimes, 15, waUIDs}[rng.IntN(6)]), N: rng.IntN(4096), Off: int64(rng.IntN(1000)), H: slot})
			open = append(open, slot)
			slot++
		case x < 24:
			sc.Ops = append(sc.Ops, vfOp{K: "opendir", P: pp(), H: slot})
			dirs = append(dirs, slot)
			slot++
		case x < 34 && len(open) > 0:
			sc.Ops = append(sc.Ops, vfOp{K: "read", H: open[rng.IntN(len(open))], Off: int64(rng.IntN(200)), N: 1 + rng.IntN(100)})
		case x < 42 && len(open) > 0:
			sc.Ops = append(sc.Ops, vfOp{K: "write", H: open[rng.IntN(len(open))], Off: int64(rng.IntN(200)), N: rng.IntN(50), B: int64(rng.IntN(99))})
		case x < 46 && len(dirs) > 0:
			sc.Ops = append(sc.Ops, vfOp{K: "readdir", H: dirs[rng.IntN(len(dirs))]})
		case x < 50 && len(open) > 0:
			sc.Ops = append(sc.Ops, vfOp{K: "fstat", H: open[rng.IntN(len(open))]})
		case x < 55 && len(open) > 0:
			sc.Ops = append(sc.Ops, vfOp{K: "fsetstat", H: open[rng.IntN(len(open))], B: int64(rng.IntN(16)), Off: int64(rng.IntN(99)), N: rng.IntN(4096), A: int64(rng.IntN(1 << 30))})
		case x < 62:
			sc.Ops = append(sc.Ops, vfOp{K: "setstat", P: pp(), B: int64(rng.IntN(16)), Off: int64(rng.IntN(99)), N: rng.IntN(4096), A: int64(rng.IntN(1 << 30))})
		case x < 67:
			sc.Ops = append(sc.Ops, vfOp{K: "stat", P: pp()})
		case x < 72:
			sc.Ops = append(sc.Ops, vfOp{K: "lstat", P: pp()})
		case x < 76:
			sc.Ops = append(sc.Ops, vfOp{K: "readlink", P: pp()})
		case x < 80:
			sc.Ops = append(sc.Ops, vfOp{K: "realpath", P: pp()})
		case x < 83:
			sc.Ops = append(sc.Ops, vfOp{K: "mkdir", P: pp(), B: int64([]int{0, 0, waPerm}[rng.IntN(3)]), N: 0o700})
		case x < 85:
			sc.Ops = append(sc.Ops, vfOp{K: "rmdir", P: pp()})
		case x < 87:
			sc.Ops = append(sc.Ops, vfOp{K: "remove", P: pp()})
		case x < 90:
			sc.Ops = append(sc.Ops, vfOp{K: "rename", P: pp(), P2: pp()})
		case x < 93:
			sc.Ops = append(sc.Ops, vfOp{K: "posixrename", P: pp(), P2: pp()})
		case x < 95:
			sc.Ops = append(sc.Ops, vfOp{K: "hardlink", P: pp(), P2: pp()})
		case x < 98:
			sc.Ops = append(sc.Ops, vfOp{K: "symlink", P: pp(), P2: pp()})
		default:
			sc.Ops = append(sc.Ops, vfOp{K: "statvfs", P: pp()})
		}
	}
	return sc
}

func c10Enumerate(tier string, base uint64, emit func(*vfScenario)) {
	n := 0
	// every path string x every start directory for each path-carrying request kind
	for si := range c10StartDirs {
		for _, hopt := range []int64{0, 1 | 2 | 4 | 128} {
			for _, k := range []string{"stat", "lstat", "readlink", "realpath", "mkdir", "rmdir", "remove", "opendir", "statvfs", "setstat", "open"} {
				sc := &vfScenario{Prop: "C10", Class: "inbound", Cfg: map[string]int64{"kind": 1, "startdir": int64(si), "hopt": hopt, "window": 1, "sites": 3}}
				sc.Ops = []vfOp{{K: "init", A: 3}}
				for i, p := range c10PathPool {
					sc.Ops = append(sc.Ops, vfOp{K: k, P: p, H: i, A: wfRead, B: 0})
				}
				n++
				sc.Seed = vfMix(vfMix(base, 0xc10), uint64(n))
				emit(sc)
			}
			for _, k := range []string{"rename", "posixrename", "hardlink", "symlink"} {
				sc := &vfScenario{Prop: "C10", Class: "inbound", Cfg: map[string]int64{"kind": 1, "startdir": int64(si), "hopt": hopt, "window": 1, "sites": 3}}
				sc.Ops = []vfOp{{K: "init", A: 3}}
				for i, p := range c10PathPool {
					sc.Ops = append(sc.Ops, vfOp{K: k, P: p, P2: c10PathPool[(i*7+3)%len(c10PathPool)]})
				}
				n++
				sc.Seed = vfMix(vfMix(base, 0xc10), uint64(n))
				emit(sc)
			}
		}
	}
	// the whole error matrix through every client operation
	for ei := range c10Errors {
		for _, k := range []string{"stat", "lstat", "open", "readat", "writeat", "mkdir", "readdir", "readlink", "statvfs", "posixrename", "rename", "remove", "truncate", "symlink", "link", "realpath"} {
			for which := 0; which < 4; which++ {
				n++
				emit(&vfScenario{Prop: "C10", Class: "outbound", Seed: vfMix(vfMix(base, 0xc10), uint64(n)), Cfg: map[string]int64{"kind": 1, "hopt": 1 | 2 | 4 | 128, "sites": 3},
					Ops: []vfOp{{K: k, A: int64(ei), B: int64(which)}}})
			}
		}
	}
}

func c10Exec(r *vfRun) {
	if r.sc.Class == "outbound" {
		c10Outbound(r)
		return
	}
	c10Inbound(r)
}

// expected clean absolute path (written from the property text, not from cleanPathWithBase)
func c10Clean(start, p string) string {
	s := start
	if !strings.HasPrefix(s, "/") {
		s = "/" + s
	}
	s = path.Clean(s)
	if !strings.HasPrefix(p, "/") {
		p = s + "/" + p
	}
	return path.Clean(p)
}

func c10PathOK(got string) string {
	if !strings.HasPrefix(got, "/") {
		return "is not absolute"
	}
	if got != "/" && strings.HasSuffix(got, "/") {
		return "has a trailing slash"
	}
	for _, seg := range strings.Split(got, "/")[1:] {
		if seg == "" && got != "/" {
			return "has an empty segment"
		}
		if seg == "." || seg == ".." {
			return "has a dot segment"
		}
	}
	return ""
}

type c10Want struct {
	method   string // handler method
	reqMeth  string
	filepath string
	verbatim bool // Filepath passed through verbatim
	target   string
	hasTgt   bool
	flags    uint32
	attrs    []byte
	chkAttrs bool
}

// c10Resolve is the custom real-path resolver of the simulated backend: what it answers need not be a clean absolute
// POSIX path (a share, a drive, a URL, something relative), and it is the handler's business alone.
func c10Resolve(p string) string {
	switch vfHashStr("resolve:"+p) % 6 {
	case 0:
		return "//host/share/" + p + "/"
	case 1:
		return "C:/x/" + p
	case 2:
		return "s3://bucket/" + p
	case 3:
		return "rel/../" + p + "/."
	}
	return "/custom/" + p
}

func c10Inbound(r *vfRun) {
	sc, sim := r.sc, r.sim
	startRaw := c10StartDirs[int(sc.cfg("startdir", 0))%len(c10StartDirs)]
	hopt := int(sc.cfg("hopt", 0))
	vfServerSites(sim, sc.cfg("sites", 3))
	fs := newSfs(sim)
	fs.realPathFn = func(p string) (string, error) { return c10Resolve(p), nil }
	srv := vfStartServer(sim, 1, sc.cfg("alloc", 0) != 0, fs, hopt, "", false, startRaw, 0)
	wc := vfNewWireClient(sim, srv.c2s, srv.s2c, sc.Ops)
	wc.window = int(sc.cfg("window", 1))
	wc.dataTag = sc.Seed
	// every path the program opens exists as a file, so that opens succeed and handles get used
	start := c10Clean(startRaw, "")
	for _, op := range sc.Ops {
		if op.K == "open" {
			if _, ok := fs.nodes[c10Clean(start, op.P)]; !ok {
				fs.nodes[c10Clean(start, op.P)] = &sfNode{kind: 'f', data: vfFill(sc.Seed, 0, 64), mode: 0o644, mtime: 946684800}
			}
		}
		if op.K == "opendir" {
			if _, ok := fs.nodes[c10Clean(start, op.P)]; !ok {
				fs.nodes[c10Clean(start, op.P)] = &sfNode{kind: 'd', mode: os.ModeDir | 0o755, mtime: 946684800}
			}
		}
	}
	sim.run(nil)
	if sim.failed() {
		return
	}
	rr := &vfRun{sc: sc, sim: sim, t: r.t, res: r.res}
	c02CheckReplies(rr, wc, true)
	if sim.failed() {
		sim.viol.Class = "C10/" + sim.viol.Class[4:]
		return
	}
	calls := fs.snapshotCalls()
	// walk requests and calls together: requests are handled... open/cmd sequentially, reads/writes in parallel;
	// calls are matched per request by content, consuming the log
	used := make([]bool, len(calls))
	find := func(pred func(c sfCall) bool) int {
		for i, c := range calls {
			if !used[i] && pred(c) {
				used[i] = true
				return i
			}
		}
		return -1
	}
	slotPath := map[int]string{}
	slotKind := map[int]string{}
	// violations of clauses with recorded findings are reported last, so that they cannot mask anything else in the run
	var deferred []func()
	deferFail := func(class, sig, format string, args ...any) {
		deferred = append(deferred, func() { r.fail(class, sig, format, args...) })
	}
	has := func(bit int) bool { return hopt&bit != 0 || (hopt&128 != 0 && (bit == 8 || bit == 16 || bit == 64)) }
	for i, q := range wc.reqs {
		op := wc.ops[i]
		p := wc.replies[i]
		var w *c10Want
		clean := c10Clean(start, q.Path)
		switch op.K {
		case "init":
			continue
		case "open":
			attrBytes := (&wbuf{}).attrsValues(q.Attrs)
			wr := q.Pflags&(wfWrite|wfAppend|wfCreat|wfTrunc) != 0
			switch {
			case wr && q.Pflags&wfRead != 0 && has(1):
				w = &c10Want{method: "OpenFile", reqMeth: "Open"}
			case wr:
				w = &c10Want{method: "Filewrite", reqMeth: "Put"}
			case q.Pflags&wfRead != 0:
				w = &c10Want{method: "Fileread", reqMeth: "Get"}
			}
			if w != nil {
				w.filepath, w.flags, w.attrs, w.chkAttrs = clean, q.Pflags, attrBytes, true
				if p.Type == wtHandle {
					slotPath[op.H], slotKind[op.H] = clean, w.reqMeth
				}
				if q.Attrs.Flags != 0 {
					// the attribute flags the client sent must reach the handler in some form
					deferFail("C10/attribute-flags-not-passed", "open-attr-flags-dropped", "OPEN %v carries attribute flags %#x; the handler's Request has Flags=%#x (the open flags) and %d attribute bytes but the attribute flags themselves are passed nowhere (AttrFlags() decodes the open flags instead)", q, q.Attrs.Flags, q.Pflags, len(attrBytes))
				}
			}
		case "opendir":
			w = &c10Want{method: "Filelist", reqMeth: "List", filepath: clean}
			if p.Type == wtHandle {
				slotPath[op.H], slotKind[op.H] = clean, "List"
			}
		case "stat":
			w = &c10Want{method: "Filelist", reqMeth: "Stat", filepath: clean}
		case "lstat":
			if has(8) {
				w = &c10Want{method: "Lstat", reqMeth: "Lstat", filepath: clean}
			} else {
				w = &c10Want{method: "Filelist", reqMeth: "Stat", filepath: clean}
			}
		case "readlink":
			if has(64) {
				w = &c10Want{method: "Readlink", filepath: clean}
			} else {
				w = &c10Want{method: "Filelist", reqMeth: "Readlink", filepath: clean}
			}
		case "realpath":
			if has(16) || hopt&32 != 0 {
				w = &c10Want{method: "RealPath", filepath: q.Path, verbatim: true}
				// ... and the resolver's answer reaches the client as given
				if want := c10Resolve(q.Path); p.Type != wtName || len(p.Names) != 1 || p.Names[0].Name != want {
					r.fail("C10/realpath", "custom-answer", "REALPATH %q: the custom resolver answered %q, the client got %v %v", q.Path, want, p, p.Names)
					return
				}
			} else {
				// built-in: the reply itself must be the clean absolute path
				if p.Type != wtName || len(p.Names) != 1 || p.Names[0].Name != clean {
					r.fail("C10/realpath", "builtin", "REALPATH %q with start directory %q answered %v %v, want %q", q.Path, startRaw, p, p.Names, clean)
					return
				}
				continue
			}
		case "setstat":
			w = &c10Want{method: "Filecmd", reqMeth: "Setstat", filepath: clean, flags: q.Attrs.Flags, attrs: (&wbuf{}).attrsValues(q.Attrs), chkAttrs: true}
		case "fsetstat":
			if sp, ok := slotPath[op.H]; ok {
				w = &c10Want{method: "Filecmd", reqMeth: "Setstat", filepath: sp, flags: q.Attrs.Flags, attrs: (&wbuf{}).attrsValues(q.Attrs), chkAttrs: true}
			}
		case "fstat":
			if sp, ok := slotPath[op.H]; ok {
				w = &c10Want{method: "Filelist", reqMeth: "Stat", filepath: sp}
			}
		case "mkdir", "rmdir", "remove":
			w = &c10Want{method: "Filecmd", reqMeth: map[string]string{"mkdir": "Mkdir", "rmdir": "Rmdir", "remove": "Remove"}[op.K], filepath: clean}
		case "rename":
			w = &c10Want{method: "Filecmd", reqMeth: "Rename", filepath: clean, target: c10Clean(start, q.Path2), hasTgt: true}
		case "posixrename":
			if has(2) {
				w = &c10Want{method: "PosixRename", reqMeth: "PosixRename", filepath: clean, target: c10Clean(start, q.Path2), hasTgt: true}
			} else {
				w = &c10Want{method: "Filecmd", reqMeth: "Rename", filepath: clean, target: c10Clean(start, q.Path2), hasTgt: true}
			}
		case "hardlink":
			w = &c10Want{method: "Filecmd", reqMeth: "Link", filepath: clean, target: c10Clean(start, q.Path2), hasTgt: true}
		case "symlink":
			// wire: Path = linkpath, Path2 = target text; the handler sees Filepath = target text verbatim
			w = &c10Want{method: "Filecmd", reqMeth: "Symlink", filepath: q.Path2, verbatim: true, target: clean, hasTgt: true}
		case "statvfs":
			if has(4) {
				w = &c10Want{method: "StatVFS", reqMeth: "StatVFS", filepath: clean}
			}
		case "read", "write", "readdir":
			kind, ok := slotKind[op.H]
			if !ok {
				continue
			}
			wantM := map[string]string{"read": "ReadAt", "write": "WriteAt", "readdir": "ListAt"}[op.K]
			legal := (op.K == "read" && (kind == "Get" || kind == "Open")) || (op.K == "write" && (kind == "Put" || kind == "Open")) || (op.K == "readdir" && kind == "List")
			if !legal {
				continue
			}
			j := find(func(c sfCall) bool {
				if c.Method != wantM || c.Filepath != slotPath[op.H] {
					return false
				}
				switch op.K {
				case "read":
					return c.Off == int64(q.Offset) && c.N == int(q.Len)
				case "write":
					return c.Off == int64(q.Offset) && c.N == len(q.Data)
				}
				return true
			})
			if j < 0 {
				r.fail("C10/handler-not-invoked", wantM, "request %v should have led to one %s call on the object of %q with the offset and length sent; call log: %v", q, wantM, slotPath[op.H], c10Log(calls))
				return
			}
			continue
		}
		if w == nil {
			continue
		}
		j := find(func(c sfCall) bool { return c.Method == w.method && (w.reqMeth == "" || c.ReqMeth == w.reqMeth) })
		if j < 0 {
			r.fail("C10/handler-not-invoked", w.method+"-"+w.reqMeth, "request %v (start directory %q, optional interfaces %#x) should have invoked %s with Method %q; call log: %v", q, startRaw, hopt, w.method, w.reqMeth, c10Log(calls))
			return
		}
		c := calls[j]
		if w.verbatim {
			if c.Filepath != w.filepath {
				r.fail("C10/verbatim-argument-altered", w.method, "request %v: the handler got %q, the client sent %q which must be passed through verbatim", q, c.Filepath, w.filepath)
				return
			}
		} else {
			if m := c10PathOK(c.Filepath); m != "" {
				r.fail("C10/path-not-clean", w.method+"-"+op.K, "request %v with start directory %q: handler path %q %s", q, startRaw, c.Filepath, m)
				return
			}
			if c.Filepath != w.filepath {
				r.fail("C10/path-wrong", w.method+"-"+op.K, "request %v with start directory %q: handler path %q, want %q", q, startRaw, c.Filepath, w.filepath)
				return
			}
		}
		if !w.hasTgt && c.Target != "" {
			// a request with one path: nothing the client did not send may appear in the second one
			r.fail("C10/target-wrong", w.method+"-"+op.K+"-stale", "request %v carries one path, but the handler's Request.Target is %q", q, c.Target)
			return
		}
		if w.hasTgt {
			if m := c10PathOK(c.Target); m != "" || c.Target != w.target {
				r.fail("C10/target-wrong", w.method+"-"+op.K, "request %v with start directory %q: handler Target %q (%s), want %q", q, startRaw, c.Target, m, w.target)
				return
			}
		}
		if w.chkAttrs {
			if c.Flags != w.flags || !bytes.Equal(c.Attrs, w.attrs) {
				r.fail("C10/flags-or-attrs-altered", w.method+"-"+op.K, "request %v: handler got Flags=%#x Attrs=%x, the client sent flags %#x and attribute bytes %x", q, c.Flags, c.Attrs, w.flags, w.attrs)
				return
			}
		}
		if c.ReqMeth == "Setstat" && w.chkAttrs && (op.K == "setstat" || op.K == "fsetstat") {
			a := q.Attrs
			if want := sfParsed(a.Flags&waSize != 0, a.Flags&waPerm != 0, a.Flags&waUIDs != 0, a.Flags&waTimes != 0, a.Size, a.Perm, a.UID, a.GID, a.Atime, a.Mtime); c.Parsed != want && a.Flags&^15 == 0 {
				r.fail("C10/flags-or-attrs-altered", w.method+"-"+op.K+"-parsed", "request %v: Request.Attributes() gave the handler%s, the client sent%s", q, c.Parsed, want)
				return
			}
		}
		if !w.chkAttrs && op.K != "mkdir" && op.K != "open" && (c.Flags != 0 || len(c.Attrs) != 0) {
			// a request that carries neither flags nor attributes (STAT, FSTAT, REMOVE, RENAME, ...): the handler must not be
			// shown any - least of all those of an earlier request
			r.fail("C10/flags-or-attrs-altered", w.method+"-"+op.K+"-stale", "request %v carries no flags or attributes, but the handler's Request has Flags=%#x Attrs=%x", q, c.Flags, c.Attrs)
			return
		}
		if op.K == "mkdir" && q.Attrs.Flags != 0 {
			deferFail("C10/attribute-flags-not-passed", "mkdir-attrs-dropped", "MKDIR %v carries attributes (flags %#x) but the handler's Request has Flags=%#x Attrs=%x", q, q.Attrs.Flags, c.Flags, c.Attrs)
		}
	}
	// exactly once: no handler call of the request-level kinds may be left over
	for i, c := range calls {
		if used[i] {
			continue
		}
		switch c.Method {
		case "Close", "TransferError", "ReadAt", "WriteAt", "ListAt":
			continue // object-level calls of stat listers etc. are not request-level invocations
		}
		r.fail("C10/handler-invoked-twice-or-unasked", c.Method+"-"+c.ReqMeth, "handler call %s (Method %q, path %q) is not accounted for by any request; log: %v", c.Method, c.ReqMeth, c.Filepath, c10Log(calls))
		return
	}
	if len(deferred) > 0 && !sim.failed() {
		deferred[0]()
		return
	}
	r.res.NonTrivial = len(wc.reqs) >= 2
	sim.count("probe.inbound_checked")
}

func c10Log(calls []sfCall) string {
	var sb strings.Builder
	for _, c := range calls {
		fmt.Fprintf(&sb, "[%s %s %q %q] ", c.Method, c.ReqMeth, c.Filepath, c.Target)
	}
	return sb.String()
}

// attrsValues encodes the attribute values without the flags word (what Request.Attrs carries).
func (w *wbuf) attrsValues(a wAttrs) []byte {
	w.attrs(a)
	return w.b[4:]
}

// ---------------------------------------------------------------- outbound: error kinds

type c10Err struct {
	name string
	err  error
	kind string // "nil", "eof", "notexist", "perm", "code:N", "fail", "either:<kind>"
}

var c10Opaque = errors.New("disk on fire: sector 7")

var c10Errors = []c10Err{
	{"nil", nil, "nil"},
	{"io.EOF", io.EOF, "eof"},
	{"os.ErrNotExist", os.ErrNotExist, "notexist"},
	{"os.ErrPermission", os.ErrPermission, "perm"},
	{"ENOENT", syscall.ENOENT, "notexist"},
	{"EACCES", syscall.EACCES, "perm"},
	{"EPERM", syscall.EPERM, "perm"},
	{"ENOTDIR", syscall.ENOTDIR, "fail"},
	{"PathError{ENOENT}", &os.PathError{Op: "open", Path: "/p", Err: syscall.ENOENT}, "notexist"},
	{"PathError{EACCES}", &os.PathError{Op: "open", Path: "/p", Err: syscall.EACCES}, "perm"},
	{"PathError{ErrNotExist}", &os.PathError{Op: "open", Path: "/p", Err: os.ErrNotExist}, "notexist"},
	{"PathError{ErrPermission}", &os.PathError{Op: "open", Path: "/p", Err: os.ErrPermission}, "perm"},
	{"PathError{ENOTDIR}", &os.PathError{Op: "open", Path: "/p", Err: syscall.ENOTDIR}, "fail"},
	{"LinkError{ENOENT}", &os.LinkError{Op: "rename", Old: "/a", New: "/b", Err: syscall.ENOENT}, "notexist"},
	{"LinkError{EPERM}", &os.LinkError{Op: "rename", Old: "/a", New: "/b", Err: syscall.EPERM}, "perm"},
	{"SyscallError{ENOENT}", &os.SyscallError{Syscall: "stat", Err: syscall.ENOENT}, "notexist"},
	{"SyscallError{EACCES}", &os.SyscallError{Syscall: "stat", Err: syscall.EACCES}, "perm"},
	{"PathError{io.EOF}", &os.PathError{Op: "read", Path: "/p", Err: io.EOF}, "eof"},
	{"fmt{ErrNotExist}", fmt.Errorf("ctx: %w", os.ErrNotExist), "either:notexist"},
	{"fmt{EACCES}", fmt.Errorf("ctx: %w", syscall.EACCES), "either:perm"},
	{"ErrSSHFxOk", ErrSSHFxOk, "nil"},
	{"ErrSSHFxEOF", ErrSSHFxEOF, "eof"},
	{"ErrSSHFxNoSuchFile", ErrSSHFxNoSuchFile, "notexist"},
	{"ErrSSHFxPermissionDenied", ErrSSHFxPermissionDenied, "perm"},
	{"ErrSSHFxFailure", ErrSSHFxFailure, "code:4"},
	{"ErrSSHFxBadMessage", ErrSSHFxBadMessage, "code:5"},
	{"ErrSSHFxNoConnection", ErrSSHFxNoConnection, "code:6"},
	{"ErrSSHFxConnectionLost", ErrSSHFxConnectionLost, "code:7"},
	{"ErrSSHFxOpUnsupported", ErrSSHFxOpUnsupported, "code:8"},
	{"opaque", c10Opaque, "fail"},
	// errors of the standard library that are none of not-exist / permission / end-of-file: failures carrying their text
	{"io.ErrUnexpectedEOF", io.ErrUnexpectedEOF, "fail"},
	{"PathError{ErrUnexpectedEOF}", &os.PathError{Op: "read", Path: "/p", Err: io.ErrUnexpectedEOF}, "fail"},
	{"fmt{ErrUnexpectedEOF}", fmt.Errorf("ctx: %w", io.ErrUnexpectedEOF), "fail"},
	{"io.ErrShortWrite", io.ErrShortWrite, "fail"},
	{"io.ErrClosedPipe", io.ErrClosedPipe, "fail"},
	{"os.ErrClosed", os.ErrClosed, "fail"},
	{"os.ErrExist", os.ErrExist, "fail"},
	{"EEXIST", syscall.EEXIST, "fail"},
	{"ENOSPC", syscall.ENOSPC, "fail"},
	{"PathError{EEXIST}", &os.PathError{Op: "mkdir", Path: "/p", Err: syscall.EEXIST}, "fail"},
	{"context.Canceled", context.Canceled, "fail"},
}

func c10KindOf(err error, text string) string {
	switch {
	case err == nil:
		return "nil"
	case errors.Is(err, io.EOF):
		return "eof"
	case errors.Is(err, os.ErrNotExist):
		return "notexist"
	case errors.Is(err, os.ErrPermission):
		return "perm"
	}
	var se *StatusError
	if errors.As(err, &se) {
		if se.Code == sshFxFailure && strings.Contains(se.msg, text) && text != "" {
			return "fail"
		}
		return fmt.Sprintf("code:%d", se.Code)
	}
	return "other:" + err.Error()
}

// c10Outbound: a planned handler error must reach the client unchanged in kind.
func c10Outbound(r *vfRun) {
	sc, sim := r.sc, r.sim
	vfServerSites(sim, sc.cfg("sites", 3))
	vfClientSites(sim, 1|2|4)
	fs := newSfs(sim)
	fs.addFile("/f0", vfFill(sc.Seed, 0, 50))
	fs.addDir("/d")
	fs.addFile("/d/a", nil)
	fs.nodes["/l0"] = &sfNode{kind: 'l', target: "f0", mode: os.ModeSymlink | 0o777, mtime: 946684800}
	srv := vfStartServer(sim, 1, sc.cfg("alloc", 0) != 0, fs, int(sc.cfg("hopt", 135)), "", false, "", 0)
	c, err := vfStartClient(sim, srv.c2s, srv.s2c, MaxPacketUnchecked(32))
	if err != nil {
		r.fail("C10/handshake", "handshake", "handshake failed: %v", err)
		return
	}
	env := &vfClientEnv{sim: sim, prop: "C10", c: c, files: map[int]*File{}, tag: sc.Seed}
	hopt := int(sc.cfg("hopt", 135))
	if hopt&1 == 0 {
		r.res.Skipped = "invalid-program" // the outbound programs read and write through one handle (needs OpenFile)
		return
	}
	type step struct {
		op      vfOp
		handler string // the handler method that fails
		e       c10Err
		setup   bool
		partial bool // the failing ReadAt has already produced some bytes: (n>0, err)
	}
	var steps []step
	slot := 0
	for _, op := range sc.Ops {
		e := c10Errors[int(op.A)%len(c10Errors)]
		var s step
		s.e = e
		switch op.K {
		case "stat":
			s.op, s.handler = vfOp{K: "stat", P: "/f0"}, "Filelist"
		case "lstat":
			s.op, s.handler = vfOp{K: "lstat", P: "/f0"}, "Filelist"
			if hopt&(8|128) != 0 {
				s.handler = "Lstat"
			}
		case "open":
			s.op, s.handler = vfOp{K: "open", P: "/f0", H: 100 + slot}, "Fileread"
			if op.B == 1 {
				s.op, s.handler = vfOp{K: "open", P: "/f0", H: 100 + slot, A: int64(os.O_WRONLY)}, "Filewrite"
			}
			slot++
		case "readat", "writeat", "truncate":
			oflag := int64(os.O_RDWR)
			if op.K == "readat" && op.B&1 == 1 {
				oflag = int64(os.O_RDONLY) // a read-only handle is served through Fileread, a read-write one through OpenFile
			}
			steps = append(steps, step{op: vfOp{K: "open", P: "/f0", H: slot, A: oflag}, setup: true})
			switch op.K {
			case "readat":
				s.op, s.handler = vfOp{K: "readat", H: slot, Off: 3, N: 5}, "ReadAt"
				s.partial = op.B&2 != 0
			case "writeat":
				s.op, s.handler = vfOp{K: "writeat", H: slot, Off: 3, N: 5}, "WriteAt"
			default:
				s.op, s.handler = vfOp{K: "truncate", H: slot, Off: 7}, "Filecmd"
			}
			slot++
		case "mkdir":
			s.op, s.handler = vfOp{K: "mkdir", P: "/newd"}, "Filecmd"
		case "readdir":
			s.op, s.handler = vfOp{K: "readdir", P: "/d"}, "ListAt"
			s.partial = op.B&2 != 0
			if op.B&1 == 1 {
				s.handler = "Filelist"
			}
		case "readlink":
			s.op, s.handler = vfOp{K: "readlink", P: "/l0"}, "Filelist"
			if hopt&(64|128) != 0 {
				s.handler = "Readlink"
			}
		case "statvfs":
			s.op, s.handler = vfOp{K: "statvfs", P: "/f0"}, "StatVFS"
			if hopt&4 == 0 {
				continue
			}
		case "posixrename":
			s.op, s.handler = vfOp{K: "posixrename", P: "/f0", P2: "/f9"}, "PosixRename"
			if hopt&2 == 0 {
				s.handler = "Filecmd"
			}
		case "rename":
			s.op, s.handler = vfOp{K: "rename", P: "/f0", P2: "/f8"}, "Filecmd"
		case "remove":
			s.op, s.handler = vfOp{K: "rmdir", P: "/d"}, "Filecmd"
		case "symlink":
			s.op, s.handler = vfOp{K: "symlink", P: "/s1", P2: "/f0"}, "Filecmd"
		case "link":
			s.op, s.handler = vfOp{K: "link", P: "/f0", P2: "/h1"}, "Filecmd"
		case "realpath":
			s.op, s.handler = vfOp{K: "realpath", P: "/f0"}, "RealPath"
			if hopt&(16|128) == 0 {
				continue
			}
		default:
			continue
		}
		if s.handler == "Filelist" && op.B&1 == 1 && (op.K == "stat" || op.K == "lstat" || op.K == "readlink") {
			// Filelist succeeds; the lister it returned fails in ListAt, without an entry or (partial) together with one
			s.handler = "ListAt"
			s.partial = op.B&2 != 0
		}
		steps = append(steps, s)
	}
	results := make([]*vfOpResult, len(steps))
	faultFired := make([]bool, len(steps))
	nFaults := func() int {
		fs.mu.Lock()
		defer fs.mu.Unlock()
		return sim.stats["fault.backend.err"]
	}
	tk := vfSpawnTask(sim, 0, len(steps), func(i int) {
		s := steps[i]
		if !s.setup && s.e.err != nil {
			fs.mu.Lock()
			n := fs.counts[s.handler]
			fs.mu.Unlock()
			fs.planFault(s.handler, n, s.e.err)
		}
		fs.mu.Lock()
		fs.partialErr = s.partial
		fs.mu.Unlock()
		before := nFaults()
		results[i] = env.do(s.op)
		faultFired[i] = nFaults() > before
	})
	sim.run(tk.finished)
	if sim.failed() {
		return
	}
	if !tk.finished() {
		r.fail("C10/call-never-returned", "liveness", "client calls did not return (steps=%d)", sim.steps)
		return
	}
	checked := 0
	for i, s := range steps {
		res := results[i]
		if s.setup {
			if res.Err != nil {
				// an earlier call of the program succeeded (nil error planned) and renamed or removed the file
				r.res.Skipped = "invalid-program"
				return
			}
			continue
		}
		if s.e.err == nil {
			continue
		}
		if !faultFired[i] {
			// the handler method that was to fail was never reached (an earlier call of the program succeeded and
			// renamed or removed the file, so the handler refused before it got there)
			r.res.Skipped = "invalid-program"
			return
		}
		// an error with SSH_FX_OK code or nil means success: the handler's effect was skipped, the call may
		// succeed or, for listings, end early; only error kinds are compared
		got := c10KindOf(res.Err, s.e.err.Error())
		want := s.e.kind
		ok := got == want || (want == "code:4" && got == "fail") || (want == "fail" && got == "code:4" && s.e.err == ErrSSHFxFailure)
		if strings.HasPrefix(want, "either:") {
			ok = got == want[7:] || got == "fail"
		}
		if want == "eof" && (s.op.K == "readdir" || s.op.K == "readat") {
			// io.EOF from a lister or reader is the normal end of data: the call ends without error (or with EOF for ReadAt)
			ok = got == "nil" || got == "eof"
		}
		if want == "eof" && s.handler == "ListAt" && s.op.K != "readdir" {
			// a lister for a single name that reports the plain end-of-list signal without an entry: "no such file" is as
			// good a rendering; together with the entry it is the normal end of a complete answer. An end-of-file *error*
			// (wrapped by package os) is an error of the handler and reaches the client as such.
			if s.e.err == io.EOF || s.e.err == ErrSSHFxEOF {
				ok = got == "eof" || got == "notexist" || (s.partial && got == "nil")
			} else {
				ok = got == "eof"
			}
		}
		if want == "nil" {
			ok = true
		}
		if s.handler == "RealPath" && hopt&32 != 0 {
			ok = true // the legacy signature cannot return an error
		}
		if !ok {
			r.fail("C10/error-kind-changed", fmt.Sprintf("%s:%s", s.handler, s.e.name), "handler %s returned %s (%v) for client call %s; the client got %v (kind %s), want kind %s", s.handler, s.e.name, s.e.err, s.op.K, res.Err, got, want)
			return
		}
		checked++
	}
	if checked > 0 {
		sim.count("probe.error_kind_checked")
	}
	r.res.NonTrivial = checked > 0
}
