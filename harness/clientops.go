//go:build verif

package sftp

// Execution of generated client API calls (shared by the client-side properties).

import (
	"bytes"
	"context"
	"errors"
	"fmt"
	"io"
	"os"
	"sort"
	"sync"
	"time"
)

type vfOpResult struct {
	Op        vfOp
	Started   bool
	Returned  bool
	Invoke    int // scheduler seq
	Return    int
	Err       error
	N         int64
	Data      []byte
	Str       string
	Size      int64
	Mode      os.FileMode
	Mtime     int64
	Names     []string
	Infos     []os.FileInfo
	Pos       int64 // for seek
	SrcRead   int64 // bytes the ReadFrom source handed out
	Src       *vfSrc
	SinkGot   []byte
	VFS       *StatVFS
	Panicked  bool
	UsedAfter bool
}

type vfClientEnv struct {
	sim   *vfSim
	prop  string
	c     *Client
	mu    sync.Mutex
	files map[int]*File
	tag   uint64
	sink  *vfSink // the sink of the WriteTo in progress (to tell an endless stream from a stuck call)
	// cancel functions of context-carrying calls in progress, by task
	cancels map[int]func()
}

// cancelEvents offers "cancel the context of task t's call" while such a call is in progress.
func (e *vfClientEnv) cancelEvents(add func(string, func())) {
	e.mu.Lock()
	defer e.mu.Unlock()
	for t, c := range e.cancels {
		t, c := t, c
		add(fmt.Sprintf("x:cancel:%02d", t), func() {
			e.mu.Lock()
			delete(e.cancels, t)
			e.mu.Unlock()
			e.sim.count("fault.ctx.cancel")
			c()
		})
	}
}

func (e *vfClientEnv) file(slot int) *File {
	e.mu.Lock()
	defer e.mu.Unlock()
	return e.files[slot]
}

func (e *vfClientEnv) setFile(slot int, f *File) {
	e.mu.Lock()
	e.files[slot] = f
	e.mu.Unlock()
}

// sources for ReadFrom

type vfSrc struct {
	data    []byte
	pos     int
	failAt  int // -1 never; after this many bytes Read returns failErr
	failErr error
	chunk   int // max bytes per Read (0 = all)
	handed  int64
	sim     *vfSim // if set, every Read waits for the scheduler first (a slow source)
	mu      sync.Mutex
}

func (s *vfSrc) handedOut() int64 {
	s.mu.Lock()
	defer s.mu.Unlock()
	return s.handed
}

func (s *vfSrc) Read(p []byte) (int, error) {
	if s.sim != nil {
		s.sim.park(fmt.Sprintf("x:src:%06d", s.pos), nil)
	}
	s.mu.Lock()
	defer s.mu.Unlock()
	if s.failAt >= 0 && s.pos >= s.failAt {
		return 0, s.failErr
	}
	if s.pos >= len(s.data) {
		return 0, io.EOF
	}
	n := len(p)
	if s.chunk > 0 && n > s.chunk {
		n = s.chunk
	}
	if s.failAt >= 0 && s.pos+n > s.failAt {
		n = s.failAt - s.pos
	}
	n = copy(p[:n], s.data[s.pos:])
	s.pos += n
	s.handed += int64(n)
	return n, nil
}

type vfSrcLen struct {
	*vfSrc
	hint int
}

func (s vfSrcLen) Len() int { return s.hint }

type vfSrcSize struct {
	*vfSrc
	hint int64
}

func (s vfSrcSize) Size() int64 { return s.hint }

type vfSrcStat struct {
	*vfSrc
	hint int64
	fail bool
}

type vfFakeInfo struct{ size int64 }

func (i vfFakeInfo) Name() string       { return "src" }
func (i vfFakeInfo) Size() int64        { return i.size }
func (i vfFakeInfo) Mode() os.FileMode  { return 0o644 }
func (i vfFakeInfo) ModTime() time.Time { return time.Unix(0, 0) }
func (i vfFakeInfo) IsDir() bool        { return false }
func (i vfFakeInfo) Sys() any           { return nil }

func (s vfSrcStat) Stat() (os.FileInfo, error) {
	if s.fail {
		return nil, errors.New("stat failed")
	}
	return vfFakeInfo{s.hint}, nil
}

var vfErrSource = errors.New("vf: source failed")
var vfErrSink = errors.New("vf: sink failed")

// vfMakeSource: kind 0 Len, 1 Size, 2 Stat, 3 LimitedReader, 4 opaque, 5 Stat that fails, 6 Len negative.
// hintDelta is added to the true size for the hint.
func vfMakeSource(data []byte, kind int, hintDelta int, failAt int, chunk int) (io.Reader, *vfSrc) {
	src := &vfSrc{data: data, failAt: failAt, failErr: vfErrSource, chunk: chunk}
	hint := len(data) + hintDelta
	if hint < 0 {
		hint = 0
	}
	switch kind {
	case 0:
		return vfSrcLen{src, hint}, src
	case 1:
		return vfSrcSize{src, int64(hint)}, src
	case 2:
		return vfSrcStat{src, int64(hint), false}, src
	case 3:
		return &io.LimitedReader{R: src, N: int64(len(data) + 100)}, src
	case 5:
		return vfSrcStat{src, 0, true}, src
	case 6:
		return vfSrcLen{src, -1}, src
	}
	return struct{ io.Reader }{src}, src
}

// sinks for WriteTo

type vfSink struct {
	buf     bytes.Buffer
	failAt  int // -1 never; the Write that crosses this many bytes fails
	short   bool
	writes  int
	maxSeen int
	sim     *vfSim // if set, every Write waits for the scheduler before it looks at its argument (a slow writer)
}

func (s *vfSink) Write(p []byte) (int, error) {
	if s.sim != nil {
		s.sim.park(fmt.Sprintf("x:sink:%06d", s.writes), nil)
	}
	s.writes++
	if s.failAt >= 0 && s.buf.Len()+len(p) > s.failAt {
		k := 0
		if s.short {
			k = s.failAt - s.buf.Len()
			if k < 0 {
				k = 0
			}
			s.buf.Write(p[:k])
		}
		return k, vfErrSink
	}
	s.buf.Write(p)
	return len(p), nil
}

// do executes one client API call.
func (e *vfClientEnv) do(op vfOp) (res *vfOpResult) {
	res = &vfOpResult{Op: op, Started: true, Invoke: e.sim.seq}
	defer func() {
		if x := recover(); x != nil {
			res.Panicked = true
			res.Err = fmt.Errorf("panic: %v", x)
			e.sim.fail(e.prop+"/panic", vfPanicSite(), "client call %s panicked: %v   at %s", op.K, x, vfShortStack())
		}
		res.Returned = true
		res.Return = e.sim.seq
	}()
	c := e.c
	var f *File
	switch op.K {
	case "close", "readat", "writeat", "read", "write", "fstat", "seek", "readfrom", "readfromc", "writeto", "truncate", "chmod", "fchown", "sync":
		f = e.file(op.H)
		if f == nil {
			res.Err = errors.New("vf: no such file slot")
			return
		}
	}
	info := func(fi os.FileInfo, err error) {
		res.Err = err
		if err == nil && fi != nil {
			res.Size, res.Mode, res.Mtime, res.Str = fi.Size(), fi.Mode(), fi.ModTime().Unix(), fi.Name()
			res.Infos = []os.FileInfo{fi}
		}
	}
	switch op.K {
	case "stat":
		info(c.Stat(op.P))
	case "lstat":
		info(c.Lstat(op.P))
	case "fstat":
		info(f.Stat())
	case "readlink":
		res.Str, res.Err = c.ReadLink(op.P)
	case "realpath":
		res.Str, res.Err = c.RealPath(op.P)
	case "statvfs":
		res.VFS, res.Err = c.StatVFS(op.P)
	case "open":
		var nf *File
		if op.A == 0 {
			nf, res.Err = c.Open(op.P)
		} else {
			nf, res.Err = c.OpenFile(op.P, int(op.A))
		}
		if res.Err == nil {
			e.setFile(op.H, nf)
		}
	case "create":
		var nf *File
		nf, res.Err = c.Create(op.P)
		if res.Err == nil {
			e.setFile(op.H, nf)
		}
	case "close":
		res.Err = f.Close()
	case "readat":
		b := make([]byte, op.N)
		var n int
		n, res.Err = f.ReadAt(b, op.Off)
		res.N, res.Data = int64(n), b
	case "read":
		b := make([]byte, op.N)
		var n int
		n, res.Err = f.Read(b)
		res.N, res.Data = int64(n), b
	case "writeat":
		b := vfFill(e.tag^uint64(op.B), op.Off, op.N)
		var n int
		n, res.Err = f.WriteAt(b, op.Off)
		res.N, res.Data = int64(n), b
	case "write":
		b := vfFill(e.tag^uint64(op.B), 0, op.N)
		var n int
		n, res.Err = f.Write(b)
		res.N, res.Data = int64(n), b
	case "seek":
		res.Pos, res.Err = f.Seek(op.Off, int(op.A))
	case "readfrom", "readfromc":
		data := vfFill(e.tag^uint64(op.B), 0, op.N)
		// S encodes: kind, hintDelta, failAt, chunk
		var kind, hintDelta, failAt, chunk, slow int
		failAt = -1
		fmt.Sscanf(op.S, "%d,%d,%d,%d,%d", &kind, &hintDelta, &failAt, &chunk, &slow)
		rd, src := vfMakeSource(data, kind, hintDelta, failAt, chunk)
		if slow != 0 {
			src.sim = e.sim
		}
		res.Src = src
		if op.K == "readfromc" {
			res.N, res.Err = f.ReadFromWithConcurrency(rd, int(op.A))
		} else {
			res.N, res.Err = f.ReadFrom(rd)
		}
		res.SrcRead = src.handedOut()
		res.Data = data
	case "writeto":
		sink := &vfSink{failAt: -1}
		if op.S != "" {
			var short int
			fmt.Sscanf(op.S, "%d,%d", &sink.failAt, &short)
			sink.short = short != 0
		}
		if op.A == 1 {
			sink.sim = e.sim
		}
		e.mu.Lock()
		e.sink = sink
		e.mu.Unlock()
		res.N, res.Err = f.WriteTo(sink)
		res.SinkGot = sink.buf.Bytes()
	case "truncate":
		res.Err = f.Truncate(op.Off)
	case "chmod":
		res.Err = f.Chmod(os.FileMode(op.A))
	case "fchown":
		res.Err = f.Chown(int(op.A), int(op.B))
	case "sync":
		res.Err = f.Sync()
	case "hasext":
		var ok bool
		res.Str, ok = c.HasExtension(op.P)
		if !ok {
			res.Str = "<not advertised>"
		}
	case "readdirctx":
		ctx, cancel := context.WithCancel(context.Background())
		e.mu.Lock()
		if e.cancels == nil {
			e.cancels = map[int]func(){}
		}
		e.cancels[op.T] = cancel
		e.mu.Unlock()
		var fis []os.FileInfo
		fis, res.Err = c.ReadDirContext(ctx, op.P)
		e.mu.Lock()
		delete(e.cancels, op.T)
		e.mu.Unlock()
		cancel()
		for _, fi := range fis {
			res.Names = append(res.Names, fi.Name())
		}
		sort.Strings(res.Names)
	case "readdir":
		var fis []os.FileInfo
		fis, res.Err = c.ReadDir(op.P)
		for _, fi := range fis {
			res.Names = append(res.Names, fi.Name())
		}
		sort.Strings(res.Names)
		res.Infos = fis
	case "mkdir":
		res.Err = c.Mkdir(op.P)
	case "remove":
		res.Err = c.Remove(op.P)
	case "rmdir":
		res.Err = c.RemoveDirectory(op.P)
	case "rename":
		res.Err = c.Rename(op.P, op.P2)
	case "posixrename":
		res.Err = c.PosixRename(op.P, op.P2)
	case "symlink":
		res.Err = c.Symlink(op.P2, op.P)
	case "link":
		res.Err = c.Link(op.P, op.P2)
	case "chtimes":
		res.Err = c.Chtimes(op.P, time.Unix(op.A, 0), time.Unix(op.B, 0))
	case "cchmod":
		res.Err = c.Chmod(op.P, os.FileMode(op.A))
	case "ctruncate":
		res.Err = c.Truncate(op.P, op.Off)
	case "getwd":
		res.Str, res.Err = c.Getwd()
	default:
		panic("vfClientEnv.do: unknown op " + op.K)
	}
	return
}

// vfStartClient performs the handshake in a goroutine and steps the simulation until it is over.
func vfStartClient(sim *vfSim, c2s, s2c *vfPipe, opts ...ClientOption) (*Client, error) {
	var c *Client
	var err error
	done := false
	go func() {
		c, err = vfNewSimClient(c2s, s2c, opts...)
		sim.mu.Lock()
		done = true
		sim.mu.Unlock()
	}()
	sim.run(func() bool { sim.mu.Lock(); defer sim.mu.Unlock(); return done })
	sim.mu.Lock()
	defer sim.mu.Unlock()
	if !done {
		return nil, errors.New("vf: handshake did not finish")
	}
	return c, err
}

func vfClientSites(sim *vfSim, mask int64) {
	if mask&1 != 0 {
		sim.sites["cc.deliver"] = true
	}
	if mask&2 != 0 {
		sim.sites["cc.woken"] = true
	}
	if mask&4 != 0 {
		sim.sites["f.map"] = true
		sim.sites["f.loop"] = true
	}
	if mask&8 != 0 {
		sim.sites["cc.send"] = true
	}
	if mask&16 != 0 {
		sim.sites["cc.bcast"] = true
	}
	if mask&32 != 0 {
		sim.sites["f.lock"] = true
	}
	if mask&256 != 0 {
		// probes before clientConn's mutex, which make the yield point inside broadcastErr's critical section safe
		sim.sites["cc.mu"] = true
		sim.sites["cc.bcast.end"] = true
	}
	if mask&128 != 0 {
		sim.sites["cc.sent"] = true // a caller between sending its request and waiting for the reply (no context in play)
	}
	if mask&64 != 0 {
		sim.sites["pkt.mid"] = true // between a packet's header and payload writes (client side only)
	}
}
