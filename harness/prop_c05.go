//go:build verif

package sftp

// C05 — operations through Client and Server behave like package os.

import (
	"errors"
	"fmt"
	"math/rand/v2"
	"os"
	"path/filepath"
	"sort"
	"strings"
	"syscall"
	"time"
)

func init() {
	vfRegister(&vfProp{
		id:       "C05",
		classes:  []string{"root", "root-alloc", "unpriv", "root", "root-alloc", "unpriv", "root", "root-alloc", "unpriv", "root", "root-alloc", "nowd"},
		gen:      c05Gen,
		exec:     c05Exec,
		maxSteps: 400000,
	})
}

// (the last three names contain pattern metacharacters: a name that comes back from the server is a name, not a pattern)
var c05Names = []string{"a", "b", "d", "d/a", "d/e", "d/e/f", "l", "x/y", "x", "d/l2", "a[1]", "a[1]/a", "[x"}

func c05Path(rng *rand.Rand) (string, int) {
	n := c05Names[rng.IntN(len(c05Names))]
	// form: 0 relative, 1 absolute, 2 "./" prefix, 3 doubled slash (relative), 4 absolute with trailing slash,
	// 5 absolute with "/../", 6 absolute with "/./"
	return n, []int{0, 0, 0, 1, 1, 2, 3, 4, 5, 6}[rng.IntN(10)]
}

// c05Twin: the same path form in the twin tree (relative forms are relative to the twin's root, as the
// served ones are relative to the server's working directory).
func c05Twin(twin, n string, form int) string {
	switch form {
	case 4:
		return twin + "/" + n + "/"
	case 5:
		return twin + "/d/../" + n
	case 6:
		return twin + "/./" + n
	}
	return twin + "/" + n
}

func c05Form(root, n string, form int) string {
	switch form {
	case 1:
		return root + "/" + n
	case 2:
		return "./" + n
	case 3:
		return strings.Replace(n, "/", "//", 1)
	case 4:
		return root + "/" + n + "/"
	case 5:
		return root + "/d/../" + n
	case 6:
		return root + "/./" + n
	}
	return n
}

func c05Gen(class string, seed uint64, tier string) *vfScenario {
	rng := vfRng(seed, 1)
	sc := &vfScenario{Cfg: map[string]int64{"kind": 0}}
	if class == "nowd" {
		// a server without a configured working directory: relative names are the process's (read-only questions only)
		sc.Cfg["nowd"] = 1
		sc.Cfg["alloc"] = int64(rng.IntN(2))
		sc.Cfg["ssites"], sc.Cfg["csites"] = int64(1+rng.IntN(3)), int64(rng.IntN(4))
		for i, n := 0, 1+rng.IntN(5); i < n; i++ {
			sc.Ops = append(sc.Ops, vfOp{K: []string{"realpath", "realpath", "getwd", "stat"}[rng.IntN(4)], P: []string{".", "", "a/b", "./x/../y", "..", "../..", "/abs/p", "a//b/./c/"}[rng.IntN(8)]})
		}
		return sc
	}
	if class == "root-alloc" {
		sc.Cfg["alloc"] = 1
	}
	sc.Cfg["ssites"] = int64(1 + rng.IntN(3))
	sc.Cfg["csites"] = int64(rng.IntN(4))
	n := 1 + rng.IntN(25)
	kinds := []string{"mkdir", "mkdir", "mkdirall", "create", "create", "openfile", "remove", "remove", "rmdir", "removeall", "rename", "rename", "posixrename",
		"link", "symlink", "symlink", "readlink", "stat", "stat", "lstat", "chmod", "chtimes", "truncate", "readdir", "glob", "walk", "realpath", "statvfs"}
	for i := 0; i < n; i++ {
		k := kinds[rng.IntN(len(kinds))]
		p, f := c05Path(rng)
		p2, f2 := c05Path(rng)
		if f == 4 && k != "stat" && k != "lstat" && k != "readdir" && k != "mkdir" && k != "walk" {
			f = 1 // a trailing slash on what may be a non-directory is where kernels themselves are quirky
		}
		if f2 == 4 {
			f2 = 1
		}
		op := vfOp{K: k, P: p, A: int64(f), P2: p2, B: int64(f2)}
		switch k {
		case "create", "openfile":
			op.N = rng.IntN(20)
			op.Off = int64([]int{os.O_RDWR | os.O_CREATE, os.O_WRONLY | os.O_CREATE | os.O_TRUNC, os.O_WRONLY | os.O_CREATE | os.O_EXCL, os.O_RDWR, os.O_WRONLY | os.O_APPEND | os.O_CREATE, os.O_RDONLY,
				os.O_WRONLY | os.O_TRUNC, os.O_RDWR | os.O_TRUNC, os.O_WRONLY | os.O_EXCL, os.O_RDWR | os.O_CREATE | os.O_EXCL | os.O_TRUNC}[rng.IntN(10)])
		case "symlink":
			// target text: a name (relative), absolute, dangling, or going up
			op.S = []string{"", "", "abs", "dangling", "../"}[rng.IntN(5)]
		case "chmod":
			op.N = []int{0o644, 0o600, 0o755, 0o700, 0o4755, 0o2750, 0o1777, 0o444, 0, 0o500, 0o300, 0o111}[rng.IntN(12)]
		case "chtimes":
			op.Off = int64(1000000000 + rng.IntN(500000000))
			op.N = 1000000000 + rng.IntN(500000000)
			if rng.IntN(6) == 0 {
				// times after 2038 (the wire field is an unsigned 32-bit count of seconds: up to 2106)
				op.Off = int64(1<<31 + rng.IntN(1<<31-1))
				op.N = 1<<31 + rng.IntN(1<<31-1)
			}
		case "truncate":
			op.Off = int64(rng.IntN(40))
		case "glob":
			op.S = []string{"*", "d/*", "?", "d/e/*", "[ab]", "*/*", "x/*", "d/[a-e]", "nomatch*", "*/", "*/a", "a*/a", "*/e/f", "?[[]1]/a", "*/y"}[rng.IntN(15)]
		}
		sc.Ops = append(sc.Ops, op)
	}
	return sc
}

func c05Category(err error) string {
	switch {
	case err == nil:
		return "ok"
	case errors.Is(err, os.ErrNotExist):
		return "not-exist"
	case errors.Is(err, os.ErrPermission):
		return "permission"
	}
	return "other"
}

type c05Step struct {
	cat  string
	vals string
}

// c05NoWorkDir: without WithServerWorkingDirectory every relative name is resolved like package os does it in this
// process: RealPath(p) == filepath.Abs(p), Getwd() == os.Getwd(), Stat(p) agrees with os.Stat(p).
func c05NoWorkDir(r *vfRun) {
	sc, sim := r.sc, r.sim
	vfServerSites(sim, sc.cfg("ssites", 3))
	vfClientSites(sim, sc.cfg("csites", 7))
	srv := vfStartServer(sim, 0, sc.cfg("alloc", 0) != 0, nil, 0, "", false, "", 0)
	c, err := vfStartClient(sim, srv.c2s, srv.s2c)
	if err != nil {
		r.fail("C05/handshake", "handshake", "handshake failed: %v", err)
		return
	}
	var mismatch, msig string
	tk := vfSpawnTask(sim, 0, len(sc.Ops), func(i int) {
		if mismatch != "" {
			return
		}
		op := sc.Ops[i]
		switch op.K {
		case "realpath":
			got, e1 := c.RealPath(op.P)
			want, e2 := filepath.Abs(op.P)
			if (e1 == nil) != (e2 == nil) || (e1 == nil && got != want) {
				mismatch, msig = fmt.Sprintf("RealPath(%q) on a server without a working directory = %q, %v; filepath.Abs gives %q, %v", op.P, got, e1, want, e2), "value:realpath-nowd"
			}
		case "getwd":
			got, e1 := c.Getwd()
			want, e2 := os.Getwd()
			if (e1 == nil) != (e2 == nil) || (e1 == nil && got != want) {
				mismatch, msig = fmt.Sprintf("Getwd() on a server without a working directory = %q, %v; os.Getwd gives %q, %v", got, e1, want, e2), "value:getwd-nowd"
			}
		case "stat":
			_, e1 := c.Stat(op.P)
			_, e2 := os.Stat(op.P)
			if c05Category(e1) != c05Category(e2) {
				mismatch, msig = fmt.Sprintf("Stat(%q) on a server without a working directory: %v; os.Stat: %v", op.P, e1, e2), "outcome:stat-nowd"
			}
		}
	})
	sim.run(tk.finished)
	if sim.failed() {
		return
	}
	if !tk.finished() {
		r.fail("C05/call-never-returned", "liveness", "calls did not return")
		return
	}
	if mismatch != "" {
		r.fail("C05/differs-from-os", msig, "%s", mismatch)
		return
	}
	r.res.NonTrivial = true
}

func c05Exec(r *vfRun) {
	if r.sc.cfg("nowd", 0) != 0 {
		c05NoWorkDir(r)
		return
	}
	sc, sim := r.sc, r.sim
	v, err := vfStartFileSystem(r, nil)
	defer v.cleanup()
	if err != nil {
		r.fail("C05/handshake", "handshake", "handshake failed: %v", err)
		return
	}
	os.Remove(v.root + "/f") // vfStartFileSystem's default file is not part of this universe
	twin := vfNewTree()
	defer vfRemoveTree(twin)
	c := v.c
	root := v.root
	if sc.Class == "unpriv" {
		// the permission outcome category only exists for an unprivileged process: both trees are handed
		// to uid/gid 65534 and the effective ids of the whole process are switched for the run (saved ids stay 0)
		if os.Geteuid() != 0 {
			r.res.Skipped = "not-root"
			return
		}
		for _, d := range []string{root, twin} {
			os.Chown(d, 65534, 65534)
		}
		if err := syscall.Setresgid(-1, 65534, -1); err != nil {
			r.res.Skipped = "cannot-drop-privileges"
			return
		}
		if err := syscall.Setresuid(-1, 65534, -1); err != nil {
			syscall.Setresgid(-1, 0, -1)
			r.res.Skipped = "cannot-drop-privileges"
			return
		}
		defer func() {
			syscall.Setresuid(-1, 0, -1)
			syscall.Setresgid(-1, 0, -1)
		}()
		sim.count("probe.unprivileged_run")
	}
	mapRoot := func(s string) string { return strings.ReplaceAll(s, root, "<root>") }
	mapTwin := func(s string) string { return strings.ReplaceAll(s, twin, "<root>") }
	var mismatch, msig string
	// entries whose modification time was set explicitly, with the value: compared only as long as the twin still
	// shows that value (a later create/remove inside a directory, a write or a truncate lets the kernel stamp "now",
	// at two slightly different instants for the two trees)
	explicitTimes := map[string]int64{}
	nEffects := 0
	snap := func(base string) string {
		// names, types, modes, sizes, contents, link targets; mtimes only where set explicitly
		var lines []string
		filepath.Walk(base, func(p string, fi os.FileInfo, err error) error {
			if err != nil {
				return nil
			}
			rel := strings.TrimPrefix(p, base)
			l := fmt.Sprintf("%s %v", rel, fi.Mode())
			if fi.Mode()&os.ModeSymlink != 0 {
				t, _ := os.Readlink(p)
				l += " -> " + strings.ReplaceAll(t, base, "<root>")
			} else if fi.Mode().IsRegular() {
				b, _ := os.ReadFile(p)
				l += fmt.Sprintf(" %d %x%s", fi.Size(), b, vfNlink(fi))
			}
			if _, ok := explicitTimes[rel]; ok {
				l += fmt.Sprintf(" mt=%d", fi.ModTime().Unix())
			}
			lines = append(lines, l)
			return nil
		})
		sort.Strings(lines)
		return strings.Join(lines, "\n")
	}
	infoStr := func(fi os.FileInfo) string {
		if fi == nil {
			return "<nil>"
		}
		size := fi.Size()
		if fi.IsDir() || fi.Mode()&os.ModeSymlink != 0 {
			size = 0
		}
		return fmt.Sprintf("%v %d dir=%v", fi.Mode(), size, fi.IsDir())
	}
	tk := vfSpawnTask(sim, 0, len(sc.Ops), func(i int) {
		if mismatch != "" {
			return
		}
		op := sc.Ops[i]
		cp, tp := c05Form(root, op.P, int(op.A)), c05Twin(twin, op.P, int(op.A))
		cp2, tp2 := c05Form(root, op.P2, int(op.B)), c05Twin(twin, op.P2, int(op.B))
		var cs, ts c05Step
		var cerr, terr error
		defer func() {
			if x := recover(); x != nil {
				mismatch, msig = fmt.Sprintf("step %d %+v panicked: %v at %s", i, op, x, vfShortStack()), "panic:"+op.K
			}
		}()
		switch op.K {
		case "mkdir":
			cerr, terr = c.Mkdir(cp), os.Mkdir(tp, 0o755)
		case "mkdirall":
			cerr, terr = c.MkdirAll(cp), os.MkdirAll(tp, 0o755)
		case "create", "openfile":
			data := vfFill(sc.Seed, int64(i), op.N)
			var f *File
			var tf *os.File
			if op.K == "create" {
				f, cerr = c.Create(cp)
				tf, terr = os.Create(tp)
			} else {
				f, cerr = c.OpenFile(cp, int(op.Off))
				// documented difference: the server ignores O_APPEND (the client sends offsets)
				tf, terr = os.OpenFile(tp, int(op.Off)&^os.O_APPEND, 0o644)
			}
			if cerr == nil && terr == nil && op.N > 0 {
				var n1, n2 int
				var e1, e2 error
				n1, e1 = f.Write(data)
				n2, e2 = tf.Write(data)
				cs.vals = fmt.Sprintf("write=%d,%s", n1, c05Category(e1))
				ts.vals = fmt.Sprintf("write=%d,%s", n2, c05Category(e2))
			}
			if f != nil {
				f.Close()
			}
			if tf != nil {
				tf.Close()
			}
		case "remove":
			cerr, terr = c.Remove(cp), os.Remove(tp)
		case "rmdir":
			if fi, e := os.Lstat(tp); e == nil && !fi.IsDir() {
				return // RemoveDirectory of a non-directory: not compared (the server uses os.Remove for RMDIR)
			}
			cerr, terr = c.RemoveDirectory(cp), os.Remove(tp)
		case "removeall":
			cerr = c.RemoveAll(cp)
			if _, e := os.Lstat(tp); e != nil {
				terr = e // documented difference: RemoveAll reports a missing path
			} else {
				terr = os.RemoveAll(tp)
			}
		case "rename":
			cerr, terr = c.Rename(cp, cp2), os.Rename(tp, tp2)
		case "posixrename":
			cerr, terr = c.PosixRename(cp, cp2), os.Rename(tp, tp2)
		case "link":
			cerr, terr = c.Link(cp, cp2), os.Link(tp, tp2)
		case "symlink":
			// the target text
			ct, tt := op.P2, op.P2
			switch op.S {
			case "abs":
				ct, tt = root+"/"+op.P2, twin+"/"+op.P2
			case "dangling":
				ct, tt = "nowhere/at/all", "nowhere/at/all"
			case "../":
				ct, tt = "../"+op.P2, "../"+op.P2
			}
			cerr, terr = c.Symlink(ct, cp), os.Symlink(tt, tp)
		case "readlink":
			var a, b string
			a, cerr = c.ReadLink(cp)
			b, terr = os.Readlink(tp)
			cs.vals, ts.vals = mapRoot(a), mapTwin(b)
		case "stat":
			var a, b os.FileInfo
			a, cerr = c.Stat(cp)
			b, terr = os.Stat(tp)
			if cerr == nil && terr == nil {
				cs.vals, ts.vals = infoStr(a), infoStr(b)
			}
		case "lstat":
			var a, b os.FileInfo
			a, cerr = c.Lstat(cp)
			b, terr = os.Lstat(tp)
			if cerr == nil && terr == nil {
				cs.vals, ts.vals = infoStr(a), infoStr(b)
			}
		case "chmod":
			m := os.FileMode(op.N & 0o777)
			if op.N&0o4000 != 0 {
				m |= os.ModeSetuid
			}
			if op.N&0o2000 != 0 {
				m |= os.ModeSetgid
			}
			if op.N&0o1000 != 0 {
				m |= os.ModeSticky
			}
			cerr, terr = c.Chmod(cp, m), os.Chmod(tp, m)
		case "chtimes":
			at, mt := time.Unix(op.Off, 0), time.Unix(int64(op.N), 0)
			cerr, terr = c.Chtimes(cp, at, mt), os.Chtimes(tp, at, mt)
			if terr == nil {
				// (the file the times were set on, following symlinks)
				if real, e := filepath.EvalSymlinks(tp); e == nil {
					explicitTimes[strings.TrimPrefix(real, twin)] = mt.Unix()
				}
			}
		case "truncate":
			cerr, terr = c.Truncate(cp, op.Off), os.Truncate(tp, op.Off)
		case "readdir":
			var a []os.FileInfo
			var b []os.DirEntry
			a, cerr = c.ReadDir(cp)
			b, terr = os.ReadDir(tp)
			if cerr == nil && terr == nil {
				var x, y []string
				for _, fi := range a {
					x = append(x, fi.Name()+" "+infoStr(fi))
				}
				for _, de := range b {
					fi, _ := de.Info()
					y = append(y, de.Name()+" "+infoStr(fi))
				}
				sort.Strings(x)
				sort.Strings(y)
				cs.vals, ts.vals = strings.Join(x, "|"), strings.Join(y, "|")
			}
		case "glob":
			var a, b []string
			a, cerr = c.Glob(root + "/" + op.S)
			b, terr = filepath.Glob(twin + "/" + op.S)
			for j := range a {
				a[j] = strings.TrimSuffix(mapRoot(a[j]), "/")
			}
			for j := range b {
				b[j] = strings.TrimSuffix(mapTwin(b[j]), "/")
			}
			sort.Strings(a)
			sort.Strings(b)
			cs.vals, ts.vals = strings.Join(a, "|"), strings.Join(b, "|")
		case "walk":
			var a, b []string
			w := c.Walk(cp)
			for w.Step() {
				if w.Err() != nil {
					continue
				}
				a = append(a, strings.TrimSuffix(mapRoot(filepath.Clean(c05Abs(root, w.Path()))), "/"))
			}
			filepath.Walk(tp, func(p string, fi os.FileInfo, err error) error {
				// filepath.Walk reports an unreadable directory once, together with the error; it was visited all the same
				if err == nil || fi != nil {
					b = append(b, strings.TrimSuffix(mapTwin(filepath.Clean(p)), "/"))
				}
				return nil
			})
			sort.Strings(a)
			sort.Strings(b)
			cs.vals, ts.vals = strings.Join(a, "|"), strings.Join(b, "|")
		case "realpath":
			var a string
			a, cerr = c.RealPath(cp)
			b, _ := filepath.Abs(tp)
			cs.vals, ts.vals = mapRoot(a), mapTwin(filepath.Clean(b))
		case "statvfs":
			var a *StatVFS
			a, cerr = c.StatVFS(cp)
			var st syscall.Statfs_t
			terr = syscall.Statfs(tp, &st)
			if cerr == nil && terr == nil {
				cs.vals = fmt.Sprintf("%d %d %d %d", a.Bsize, a.Blocks, a.Files, a.Namemax)
				ts.vals = fmt.Sprintf("%d %d %d %d", st.Bsize, st.Blocks, st.Files, st.Namelen)
			}
		}
		cs.cat, ts.cat = c05Category(cerr), c05Category(terr)
		if sc.Class == "unpriv" && (op.K == "readdir" || op.K == "glob" || op.K == "walk" || op.K == "removeall") &&
			(cs.cat != ts.cat || cs.vals != ts.vals) && (cs.cat == "permission" || ts.cat == "permission" || op.K == "glob" || op.K == "walk") {
			// Listing through SFTP needs search permission on the directory (READDIR returns attributes, the
			// os calls only names), and os.RemoveAll opens the parent directory while the client works by path:
			// differences of this kind belong to the protocol / to package os, not to this package. The run
			// stops here (the trees may have diverged) and is counted, not reported.
			mismatch, msig = "classified", "classified"
			return
		}
		if cs.cat != ts.cat {
			mismatch, msig = fmt.Sprintf("step %d %s(%q,%q): through the client the outcome is %s (%v), package os on an identical tree gives %s (%v)", i, op.K, cp, cp2, cs.cat, cerr, ts.cat, terr), "outcome:"+op.K+":"+cs.cat+"/"+ts.cat
			return
		}
		if cs.vals != ts.vals {
			mismatch, msig = fmt.Sprintf("step %d %s(%q): the client returned %q, package os on an identical tree %q", i, op.K, cp, cs.vals, ts.vals), "value:"+op.K
			return
		}
		for rel, val := range explicitTimes {
			if fi, e := os.Lstat(twin + rel); e != nil || fi.ModTime().Unix() != val {
				delete(explicitTimes, rel) // the kernel has re-stamped it since
			}
		}
		if a, b := snap(root), snap(twin); a != b {
			mismatch, msig = fmt.Sprintf("after step %d %s(%q,%q,%s) [client: %v] the served tree differs from the twin driven by package os:\n--- served:\n%s\n--- twin:\n%s", i, op.K, cp, cp2, op.S, cerr, a, b), "tree:"+op.K
			return
		}
		if cs.cat == "ok" {
			nEffects++
		}
		if cs.cat == "permission" {
			sim.count("probe.permission_outcome")
		}
	})
	sim.run(tk.finished)
	if sim.failed() {
		return
	}
	if !tk.finished() {
		r.fail("C05/call-never-returned", "liveness", "history did not finish (steps=%d)", sim.steps)
		return
	}
	if mismatch == "classified" {
		r.res.Skipped = "unprivileged-listing-or-removeall-detail"
		return
	}
	if mismatch != "" {
		r.fail("C05/differs-from-os", msig, "%s", mismatch)
		return
	}
	r.res.NonTrivial = nEffects >= 2
}

func c05Abs(root, p string) string {
	if strings.HasPrefix(p, "/") {
		return p
	}
	return root + "/" + p
}
