//go:build verif

package sftp

// C03 — each client call gets the reply to its own request.

import (
	"bytes"
	"context"
	"errors"
	"fmt"
	"io"
	"math/rand/v2"
	"os"
	"sort"
	"strings"
	"sync/atomic"
)

func init() {
	vfRegister(&vfProp{
		id:       "C03",
		classes:  []string{"single", "single-ccsend", "multi", "mixed", "torn"},
		gen:      c03Gen,
		exec:     c03Exec,
		maxSteps: 40000,
	})
}

var c03Paths = []string{"/a", "/b", "/p/q", "/zz", "/nx1", "/dir", "/some/long/path/name", "/nx/2"}

func c03Gen(class string, seed uint64, tier string) *vfScenario {
	rng := vfRng(seed, 1)
	sc := &vfScenario{Cfg: map[string]int64{}}
	ntasks := 2 + rng.IntN(7)
	P := []int{1, 2, 3, 4, 5, 7, 8, 16, 64, 1000}[rng.IntN(10)]
	M := []int{1, 2, 3, 4, 8, 64}[rng.IntN(6)]
	sc.Cfg["P"], sc.Cfg["M"] = int64(P), int64(M)
	sc.Cfg["sizeA"] = int64(rng.IntN(6*P + 3))
	sc.Cfg["sizeB"] = int64(rng.IntN(3*P*M + 2))
	multi := class == "multi" || class == "mixed" || class == "torn"
	sites := int64(1 | 2 | 4)
	if rng.IntN(4) == 0 {
		sites = int64(1 + rng.IntN(7))
	}
	if multi {
		sites |= 4 // without f.map/f.loop the slicer's select coin shows when a read crosses EOF
	}
	if class == "single-ccsend" {
		sites |= 8
	}
	if class == "torn" {
		// writes park between the header and the payload of a packet; senders are gated by a probe of the write lock
		// (parkwrites: inside the pipe's Write; site pkt.mid: between the two Write calls of one packet)
		sites |= 8
		switch rng.IntN(4) {
		case 0:
			sc.Cfg["parkwrites"] = 1
		case 1, 2:
			sites |= 64
		default:
			sites |= 64
			sc.Cfg["parkwrites"] = 1
		}
	}
	sc.Cfg["sites"] = sites
	sc.Cfg["concr"] = int64(rng.IntN(2))
	sc.Cfg["concw"] = int64(rng.IntN(2))
	for t := 0; t < ntasks; t++ {
		n := 2 + rng.IntN(5)
		for i := 0; i < n; i++ {
			op := c03GenOp(rng, t, P, multi, class == "mixed")
			if class == "torn" && op.K == "writeat" && op.Off >= c03Refused {
				// (the same coin: a transfer that is cancelled by a refusal) keep this class's writes in the accepted region
				op.Off -= c03Refused
			}
			if class == "torn" && op.K == "readat" {
				// with cc.send active a cancelled slicer would flip a coin: keep reads inside the file
				size := int(sc.Cfg["sizeA"])
				if op.H == 1 {
					size = int(sc.Cfg["sizeB"])
				}
				if op.H >= 10 || int(op.Off)+op.N > size {
					op = vfOp{K: "writeat", T: t, H: 10 + t, Off: op.Off, N: op.N, B: int64(rng.IntN(1 << 20))}
				}
			}
			sc.Ops = append(sc.Ops, op)
		}
	}
	if rng.IntN(6) == 0 {
		// a long-lived session: the 32-bit request id counter is about to wrap around during this run
		sc.Cfg["idwrap"] = int64(1 + rng.IntN(12))
	}
	return sc
}

const c03Refused = 1 << 20 // writes to the shared file at or beyond this offset are refused by the peer

func c03GenOp(rng *rand.Rand, t, P int, multi, mixed bool) vfOp {
	p := c03Paths[rng.IntN(len(c03Paths))]
	x := rng.IntN(100)
	ln := func() int {
		if multi && (!mixed || rng.IntN(2) == 0) {
			return P + 1 + rng.IntN(4*P+2)
		}
		return 1 + rng.IntN(P)
	}
	switch {
	case x < 18:
		return vfOp{K: "stat", T: t, P: p}
	case x < 28:
		return vfOp{K: "lstat", T: t, P: p}
	case x < 36:
		return vfOp{K: "readlink", T: t, P: p}
	case x < 44:
		return vfOp{K: "realpath", T: t, P: p}
	case x < 50:
		return vfOp{K: "statvfs", T: t, P: p}
	case x < 70:
		// shared pre-opened files: slot 0 = /a, slot 1 = /b
		return vfOp{K: "readat", T: t, H: rng.IntN(2), Off: int64(rng.IntN(3 * P)), N: ln()}
	case x < 75:
		return vfOp{K: "fstat", T: t, H: rng.IntN(2)}
	case x < 77:
		// (on the task's own file) the peer advertises fsync but refuses it for the files of odd-numbered tasks
		// ("unsupported"): an answer about one request, not about the session
		return vfOp{K: "sync", T: t, H: 10 + t}
	case x < 78:
		return vfOp{K: "hasext", T: t, P: "fsync@openssh.com"}
	case x < 82:
		return vfOp{K: "readdir", T: t, P: "/dir"}
	case x < 86:
		return vfOp{K: "readdirctx", T: t, P: "/dir"}
	case x < 90:
		// a write-only file shared by all tasks (slot 2); the peer refuses writes in its upper region, and the
		// refusal names the offset, so both outcomes are attributable to one request
		off := int64(rng.IntN(4 * P))
		if rng.IntN(2) == 0 {
			off += c03Refused
		}
		return vfOp{K: "writeat", T: t, H: 2, Off: off, N: ln(), B: int64(rng.IntN(1 << 20))}
	case x < 94 || (mixed && x < 97):
		// the task's own file: slot 10+t, region owned by this op
		return vfOp{K: "writeat", T: t, H: 10 + t, Off: int64(rng.IntN(2 * P)), N: ln(), B: int64(rng.IntN(1 << 20))}
	default:
		return vfOp{K: "readat", T: t, H: 10 + t, Off: 0, N: ln()}
	}
}

func c03Exec(r *vfRun) {
	sc, sim := r.sc, r.sim
	srv := vfNewScriptServer(sim)
	tag := sc.Seed
	contentA := vfFill(tag^1, 0, int(sc.cfg("sizeA", 10)))
	contentB := vfFill(tag^2, 0, int(sc.cfg("sizeB", 10)))
	srv.files["/a"] = append([]byte(nil), contentA...)
	srv.files["/b"] = append([]byte(nil), contentB...)
	dirNames := []string{"e1", "e2", "e3", "e4", "e5", "e6", "e7"}
	srv.addDir("/dir", dirNames...)
	srv.exts = [][2]string{{"fsync@openssh.com", "1"}}
	srv.noSync = func(p string) bool { return len(p) > 2 && p[:2] == "/w" && (p[len(p)-1]-'0')%2 == 1 }
	vfClientSites(sim, sc.cfg("sites", 7))
	P, M := int(sc.cfg("P", 4)), int(sc.cfg("M", 2))
	c, err := vfStartClient(sim, srv.c2s, srv.s2c, MaxPacketUnchecked(P), MaxConcurrentRequestsPerFile(M),
		UseConcurrentReads(sc.cfg("concr", 1) != 0), UseConcurrentWrites(sc.cfg("concw", 0) != 0))
	if err != nil {
		r.fail("C03/handshake", "handshake", "handshake with a correct peer failed: %v", err)
		return
	}
	if w := sc.cfg("idwrap", 0); w > 0 {
		atomic.StoreUint32(&c.nextid, ^uint32(0)-uint32(w))
		sim.count("probe.request_id_counter_wraps")
	}
	env := &vfClientEnv{sim: sim, prop: "C03", c: c, files: map[int]*File{}, tag: tag}
	sim.addSource(env.cancelEvents)
	if sc.cfg("parkwrites", 0) != 0 || sc.cfg("sites", 7)&64 != 0 {
		sim.sendProbe = func() bool {
			if c.clientConn.conn.TryLock() {
				c.clientConn.conn.Unlock()
				return true
			}
			return false
		}
		srv.c2s.parkWrites = sc.cfg("parkwrites", 0) != 0
	}
	// group ops per task
	byTask := map[int][]vfOp{}
	var tids []int
	for _, op := range sc.Ops {
		if _, ok := byTask[op.T]; !ok {
			tids = append(tids, op.T)
		}
		byTask[op.T] = append(byTask[op.T], op)
	}
	sort.Ints(tids)
	// setup: shared files and per-task files, opened one after the other
	setup := []vfOp{{K: "open", P: "/a", H: 0}, {K: "open", P: "/b", H: 1}, {K: "open", P: "/sw", H: 2, A: int64(os.O_WRONLY | os.O_CREATE)}}
	srv.override = func(rq *ssReq) []byte {
		q := rq.q
		if q.Type != wtWrite || q.Offset < c03Refused {
			return nil
		}
		srv.mu.Lock()
		h := srv.handles[q.Handle]
		srv.mu.Unlock()
		if h == nil || h.path != "/sw" {
			return nil
		}
		sim.count("fault.peer.status")
		return ssStatus(q.ID, wsFailure, fmt.Sprintf("refused@%d", q.Offset)).encode()
	}
	for _, t := range tids {
		setup = append(setup, vfOp{K: "open", P: fmt.Sprintf("/w%d", t), H: 10 + t, A: int64(os.O_RDWR | os.O_CREATE)})
	}
	setupOK := true
	st := vfSpawnTask(sim, 99, len(setup), func(i int) {
		if res := env.do(setup[i]); res.Err != nil {
			setupOK = false
		}
	})
	sim.run(st.finished)
	if !st.finished() || !setupOK {
		if !sim.failed() {
			r.fail("C03/setup", "setup", "opening files against a correct peer failed or did not finish")
		}
		return
	}
	results := map[int][]*vfOpResult{}
	var tasks []*vfTask
	maxInflight := 0
	srvOnStep := sim.onStep
	sim.onStep = func(key string) {
		if n := srv.outstanding(); n > maxInflight {
			maxInflight = n
		}
		if srvOnStep != nil {
			srvOnStep(key)
		}
	}
	for _, t := range tids {
		t := t
		ops := byTask[t]
		results[t] = make([]*vfOpResult, len(ops))
		tasks = append(tasks, vfSpawnTask(sim, t, len(ops), func(i int) { results[t][i] = env.do(ops[i]) }))
	}
	allDone := func() bool {
		for _, t := range tasks {
			if !t.finished() {
				return false
			}
		}
		return true
	}
	sim.run(allDone)
	if sim.failed() {
		return
	}
	if srv.bad != nil {
		r.fail("C03/request-stream-torn", "framing", "client->server stream is not a sequence of whole, well-framed packets: %v", srv.bad)
		return
	}
	if !allDone() {
		r.fail("C03/call-never-returned", "liveness", "a call did not return although every request had been answered (steps=%d stuck=%v parked=%v pending=%d)", sim.steps, sim.stuck, sim.parkedKeys(), srv.outstanding())
		return
	}
	// monitors on the client->server stream
	if srv.bad != nil {
		r.fail("C03/request-stream-torn", "framing", "client->server stream is not a sequence of whole, well-framed packets: %v", srv.bad)
		return
	}
	if srv.dupID != "" {
		r.fail("C03/duplicate-id-in-flight", "dupid", "%s", srv.dupID)
		return
	}
	// oracle: every result is the answer to the caller's own request
	for _, t := range tids {
		own := []byte{}
		for i, res := range results[t] {
			if res == nil || !res.Returned {
				r.fail("C03/call-never-returned", "liveness", "task %d op %d has no result", t, i)
				return
			}
			if msg := c03Check(srv, res, contentA, contentB, &own, dirNames, P); msg != "" {
				r.fail("C03/wrong-result", res.Op.K, "task %d op %d %+v: %s", t, i, res.Op, msg)
				return
			}
		}
		// the task's own file on the server must equal what it wrote
		got := srv.files[fmt.Sprintf("/w%d", t)]
		if !bytes.Equal(got, own) {
			r.fail("C03/wrong-result", "served-content", "task %d: served file differs from what the task wrote: got %x want %x", t, got, own)
			return
		}
	}
	if srv.sim.stats["probe.peer.reordered"] > 0 {
		sim.count("probe.reply_overtook")
	}
	r.res.NonTrivial = maxInflight >= 2 && sim.stats["probe.peer.reordered"] > 0
	if maxInflight >= 2 {
		sim.count("probe.concurrent_inflight")
	}
	_ = c
}

func c03Check(srv *vfScriptServer, res *vfOpResult, a, b []byte, own *[]byte, dirNames []string, P int) string {
	op := res.Op
	notExist := strings.Contains(op.P, "nx")
	switch op.K {
	case "stat", "lstat":
		if notExist {
			if !errors.Is(res.Err, os.ErrNotExist) {
				return fmt.Sprintf("want not-exist, got %v", res.Err)
			}
			return ""
		}
		if res.Err != nil {
			return fmt.Sprintf("unexpected error %v", res.Err)
		}
		at, _ := srv.attrsFor(op.P)
		if op.K == "lstat" {
			at.Mtime ^= 1
		}
		if res.Size != int64(at.Size) || res.Mtime != int64(at.Mtime) || uint32(res.Mode.Perm()) != at.Perm&0o777 {
			return fmt.Sprintf("got size=%d mtime=%d perm=%o, the answer to this request is size=%d mtime=%d perm=%o", res.Size, res.Mtime, res.Mode.Perm(), at.Size, at.Mtime, at.Perm&0o777)
		}
	case "sync":
		var se *StatusError
		if (op.H-10)%2 == 1 {
			if !errors.As(res.Err, &se) || se.Code != sshFxOPUnsupported {
				return fmt.Sprintf("Sync of /w%d returned %v; the answer to this request is SSH_FX_OP_UNSUPPORTED", op.H-10, res.Err)
			}
		} else if res.Err != nil {
			return fmt.Sprintf("Sync of /w%d returned %v; the answer to this request is OK", op.H-10, res.Err)
		}
	case "hasext":
		if res.Str != "1" {
			return fmt.Sprintf("HasExtension(fsync) = %q, the peer advertised it with data \"1\"", res.Str)
		}
	case "fstat":
		if res.Err != nil {
			return fmt.Sprintf("unexpected error %v", res.Err)
		}
		want := len(a)
		if op.H == 1 {
			want = len(b)
		}
		if res.Size != int64(want) {
			return fmt.Sprintf("got size %d want %d", res.Size, want)
		}
	case "readlink":
		if notExist {
			if !errors.Is(res.Err, os.ErrNotExist) {
				return fmt.Sprintf("want not-exist, got %v", res.Err)
			}
			return ""
		}
		if res.Err != nil || res.Str != "target-of-"+op.P {
			return fmt.Sprintf("got %q, %v", res.Str, res.Err)
		}
	case "realpath":
		if res.Err != nil || res.Str != "/r"+ssClean(op.P) {
			return fmt.Sprintf("got %q, %v", res.Str, res.Err)
		}
	case "statvfs":
		if res.Err != nil || res.VFS == nil {
			return fmt.Sprintf("unexpected error %v", res.Err)
		}
		h := vfHashStr("vfs:" + op.P)
		if res.VFS.Bsize != vfMix(h, 0)%1000000 || res.VFS.Namemax != vfMix(h, 10)%1000000 || res.VFS.Files != vfMix(h, 5)%1000000 {
			return fmt.Sprintf("statvfs reply belongs to another request: %+v", *res.VFS)
		}
	case "readdirctx":
		if errors.Is(res.Err, context.Canceled) {
			return "" // abandoned by its caller; what matters is that nobody else is affected
		}
		fallthrough
	case "readdir":
		if res.Err != nil {
			return fmt.Sprintf("unexpected error %v", res.Err)
		}
		if strings.Join(res.Names, ",") != strings.Join(dirNames, ",") {
			return fmt.Sprintf("got names %v want %v", res.Names, dirNames)
		}
	case "readat":
		var content []byte
		switch {
		case op.H == 0:
			content = a
		case op.H == 1:
			content = b
		default:
			content = *own
		}
		return vfCheckReadAt(res, content)
	case "writeat":
		if op.H == 2 {
			// the shared file: accepted below c03Refused, refused (with the request's own offset in the text) above
			if op.Off >= c03Refused {
				var se *StatusError
				if !errors.As(res.Err, &se) || se.msg != fmt.Sprintf("refused@%d", op.Off) || res.N != 0 {
					return fmt.Sprintf("the peer refused this write with \"refused@%d\"; the call returned n=%d err=%v", op.Off, res.N, res.Err)
				}
				return ""
			}
			if res.Err != nil || res.N != int64(op.N) {
				return fmt.Sprintf("the peer accepted every chunk of this write; the call returned n=%d err=%v", res.N, res.Err)
			}
			return ""
		}
		if res.Err != nil || res.N != int64(op.N) {
			return fmt.Sprintf("got n=%d err=%v", res.N, res.Err)
		}
		end := int(op.Off) + op.N
		if end > len(*own) {
			*own = append(*own, make([]byte, end-len(*own))...)
		}
		copy((*own)[op.Off:], res.Data)
	}
	return ""
}

// vfCheckReadAt compares a ReadAt result with the reference content.
func vfCheckReadAt(res *vfOpResult, content []byte) string {
	op := res.Op
	var want []byte
	if op.Off < int64(len(content)) {
		want = content[op.Off:]
		if len(want) > op.N {
			want = want[:op.N]
		}
	}
	if res.N != int64(len(want)) {
		return fmt.Sprintf("read %d bytes, the file has %d at that offset (err=%v)", res.N, len(want), res.Err)
	}
	if !bytes.Equal(res.Data[:res.N], want) {
		return fmt.Sprintf("data differs: got %x want %x", res.Data[:res.N], want)
	}
	if len(want) < op.N {
		if res.Err != io.EOF {
			return fmt.Sprintf("short read (%d of %d) must come with io.EOF, got %v", len(want), op.N, res.Err)
		}
	} else if res.Err != nil {
		return fmt.Sprintf("full read returned error %v", res.Err)
	}
	return ""
}
