//go:build verif

package sftp

// C20 — no server reply can crash the client.

import (
	"encoding/binary"
	"fmt"
	"math/rand/v2"
	"os"
	"runtime"
	"strings"
)

func init() {
	vfRegister(&vfProp{
		id:        "C20",
		classes:   []string{"seeded"},
		gen:       c20Gen,
		exec:      c20Exec,
		enumerate: c20Enumerate,
		maxSteps:  30000,
	})
}

// target operations: every client call that decodes a reply
var c20Targets = []vfOp{
	{K: "stat", P: "/a"}, {K: "lstat", P: "/a"}, {K: "fstat", H: 0}, {K: "readlink", P: "/l"}, {K: "realpath", P: "x/../y"},
	{K: "statvfs", P: "/a"}, {K: "open", P: "/a", H: 5}, {K: "close", H: 1}, {K: "readdir", P: "/dir"},
	{K: "readat", H: 0, Off: 1, N: 3}, {K: "readat", H: 0, Off: 0, N: 14}, {K: "read", H: 0, N: 9},
	{K: "writeat", H: 2, Off: 0, N: 3}, {K: "writeat", H: 2, Off: 2, N: 11}, {K: "write", H: 2, N: 9},
	{K: "writeto", H: 0}, {K: "readfrom", H: 2, N: 10, S: "0,0,-1,0"}, {K: "readfromc", H: 2, N: 10, A: 3, S: "4,0,-1,0"},
	{K: "mkdir", P: "/newdir"}, {K: "remove", P: "/a"}, {K: "remove", P: "/dir"}, {K: "rmdir", P: "/dir"}, {K: "rename", P: "/a", P2: "/b"},
	{K: "posixrename", P: "/a", P2: "/b"}, {K: "symlink", P: "/s", P2: "/a"}, {K: "link", P: "/a", P2: "/h"},
	{K: "chtimes", P: "/a", A: 1000, B: 2000}, {K: "cchmod", P: "/a", A: 0o600}, {K: "ctruncate", P: "/a", Off: 3},
	{K: "truncate", H: 2, Off: 2}, {K: "chmod", H: 2, A: 0o640}, {K: "getwd"}, {K: "seek", H: 0, Off: -1, A: 2}, {K: "sync", H: 2},
}

func c20Base(rng *rand.Rand, target int) *vfScenario {
	sc := &vfScenario{Cfg: map[string]int64{}}
	sc.Cfg["P"] = int64([]int{4, 4, 5, 100}[rng.IntN(4)])
	sc.Cfg["M"] = int64([]int{1, 2, 3, 64}[rng.IntN(4)])
	sc.Cfg["concr"] = int64(rng.IntN(2))
	sc.Cfg["concw"] = int64(rng.IntN(2))
	sc.Cfg["fstat"] = int64(rng.IntN(2))
	sc.Ops = []vfOp{c20Targets[target]}
	return sc
}

var c20Vals64 = []uint64{1<<64 - 1, 1<<64 - 32767, 1<<64 - 65536, 1 << 63, 1<<63 - 1, 1 << 40}

var c20Vals = []uint32{0, 1, 0, 0, 0x7fffffff, 0xffffffff, 0x20000000, 0x20000001, 0x40000000, 0x10000000, 0x80000000, 0x15555556} // slots 2,3 are n-1, n+1; the last ones wrap when multiplied by 8, 4, 16, 2 or 12

func c20Gen(class string, seed uint64, tier string) *vfScenario {
	rng := vfRng(seed, 1)
	sc := c20Base(rng, rng.IntN(len(c20Targets)))
	f := vfFault{K: "mutate", At: int64(rng.IntN(4))}
	switch x := rng.IntN(100); {
	case x < 30:
		f.A, f.B = 0, int64(1+rng.IntN(40))
	case x < 65:
		f.A, f.B, f.S = 1, int64(1+rng.IntN(40)), fmt.Sprint(rng.IntN(len(c20Vals)))
	case x < 80:
		f.A, f.B = 2, int64([]int{101, 102, 103, 104, 105, 201, 2, 0, 255, 1, 3}[rng.IntN(11)])
	case x < 90:
		f.A, f.B = 3, int64(rng.IntN(60))
	case x < 93:
		f.A = 4
	case x < 94:
		f.A, f.B = 6, int64([]int{0, 0, 1, 4, 99}[rng.IntN(5)])
	case x < 95:
		f.A, f.B = 9, int64(rng.IntN(25))
		if rng.IntN(2) == 0 {
			f.A, f.B = 10, int64(rng.IntN(5))
			sc.Cfg["hugeP"] = int64(rng.IntN(2))
		}
	case x < 96:
		f.A, f.B = 7, int64([]int{1, 1, 2, 7, 300}[rng.IntN(5)])
	case x < 98:
		// an absurd 64-bit quantity (a size, a statvfs counter) at some position
		f.A, f.B, f.S = 8, int64(5+4*rng.IntN(12)), fmt.Sprint(rng.IntN(len(c20Vals64)))
	default:
		f.A, f.B = 5, int64(1+rng.IntN(20))
	}
	if rng.IntN(5) == 0 {
		f.S += "sticky"
	}
	sc.Faults = []vfFault{f}
	return sc
}

type c20Golden struct {
	replies [][]byte // reply bodies (type byte first) after arm, in arrival order of their requests
}

// c20Enumerate: every target x every request of it x (every cut position, every 4-byte field
// position x 6 values, every type substitution, zero-length variants).
func c20Enumerate(tier string, base uint64, emit func(*vfScenario)) {
	rng := vfRng(vfMix(base, 0xc20), 7)
	variants := 2
	if tier == "thorough" {
		variants = 4
	}
	for ti := range c20Targets {
		for v := 0; v < variants; v++ {
			b := c20Base(rng, ti)
			b.Cfg["concr"], b.Cfg["concw"] = int64(v%2), int64((v+ti)%2) // both transfer paths in every tier
			b.Prop, b.Class, b.Seed = "C20", "enum", vfMix(vfMix(base, uint64(ti)), uint64(v))
			g := b.clone()
			g.Prop = "C20"
			res := vfExecute(vfT, g, false)
			gold, _ := res.Extra.(*c20Golden)
			if gold == nil {
				continue
			}
			seen := map[string]bool{}
			for ri, body := range gold.replies {
				key := fmt.Sprintf("%x", body)
				if seen[key] && ri > 3 {
					continue
				}
				seen[key] = true
				add := func(f vfFault) {
					f.K, f.At = "mutate", int64(ri)
					sc := b.clone()
					sc.Faults = []vfFault{f}
					emit(sc)
					if f.A == 10 {
						h := b.clone()
						h.Cfg["hugeP"] = 1
						h.Faults = []vfFault{f}
						emit(h)
					}
					if f.A == 1 || (f.A == 0 && f.B <= 9) {
						st := b.clone()
						f.S += "sticky"
						st.Faults = []vfFault{f}
						emit(st)
					}
				}
				step := 1
				if tier != "thorough" && len(body) > 48 {
					step = 3
				}
				for cut := 1; cut < len(body); cut += step {
					add(vfFault{A: 0, B: int64(cut)})
				}
				for pos := 1; pos+4 <= len(body); pos += step {
					for vi := 0; vi < len(c20Vals); vi++ {
						add(vfFault{A: 1, B: int64(pos), S: fmt.Sprint(vi)})
					}
				}
				if body[0] == wtAttrs || body[0] == wtExtReply {
					for pos := 5; pos+8 <= len(body) && pos <= 29; pos += 4 {
						for vi := range c20Vals64 {
							add(vfFault{A: 8, B: int64(pos), S: fmt.Sprint(vi)})
						}
					}
				}
				for _, t := range []int{101, 102, 103, 104, 105, 201, 2, 0, 255} {
					if byte(t) != body[0] {
						add(vfFault{A: 2, B: int64(t)})
					}
				}
				add(vfFault{A: 4})
				add(vfFault{A: 5, B: 7})
				add(vfFault{A: 6, B: 0})
				add(vfFault{A: 6, B: 1})
				for k := 0; k < 25; k += 1 + v*3 {
					add(vfFault{A: 9, B: int64(k)})
				}
				for k := 0; k < 5; k++ {
					add(vfFault{A: 10, B: int64(k)})
				}
				if body[0] == wtData {
					add(vfFault{A: 7, B: 1})
					add(vfFault{A: 7, B: 40})
				}
			}
		}
	}
}

// c20Mutate applies the planned mutation to a reply body (type byte first).
func c20Mutate(body []byte, f vfFault, seed uint64) []byte {
	b := append([]byte(nil), body...)
	switch f.A {
	case 0:
		if int(f.B) < len(b) {
			b = b[:f.B]
		}
	case 1:
		pos := int(f.B)
		if pos+4 <= len(b) {
			n := binary.BigEndian.Uint32(b[pos:])
			var vi int
			fmt.Sscanf(f.S, "%d", &vi)
			v := c20Vals[vi%len(c20Vals)]
			switch vi % len(c20Vals) {
			case 2:
				v = n - 1
			case 3:
				v = n + 1
			}
			binary.BigEndian.PutUint32(b[pos:], v)
		}
	case 2:
		b[0] = byte(f.B)
	case 3:
		rng := vfRng(seed, uint64(f.B))
		nb := make([]byte, 1+int(f.B))
		nb[0] = b[0]
		for i := 1; i < len(nb); i++ {
			nb[i] = byte(rng.IntN(256))
		}
		if len(b) >= 5 && len(nb) >= 5 && rng.IntN(2) == 0 {
			copy(nb[1:5], b[1:5]) // keep the id so that the reply reaches the caller
		}
		b = nb
	case 4:
		if len(b) >= 5 {
			binary.BigEndian.PutUint32(b[1:], binary.BigEndian.Uint32(b[1:])+1)
		}
	case 5:
		for i := 0; i < int(f.B); i++ {
			b = append(b, byte(0xa5+i))
		}
	case 8:
		pos := int(f.B)
		if pos+8 <= len(b) {
			var vi int
			fmt.Sscanf(f.S, "%d", &vi)
			binary.BigEndian.PutUint64(b[pos:], c20Vals64[vi%len(c20Vals64)])
		}
	case 7:
		// a well-formed DATA reply that carries f.B more bytes than the request asked for
		if len(b) >= 9 && b[0] == wtData {
			n := binary.BigEndian.Uint32(b[5:])
			if int(n) == len(b)-9 {
				binary.BigEndian.PutUint32(b[5:], n+uint32(f.B))
				for i := 0; i < int(f.B); i++ {
					b = append(b, byte(0xd0+i))
				}
			}
		}
	case 6:
		// a well-formed STATUS with code f.B (0 = SSH_FX_OK) in place of whatever the request expects
		if len(b) >= 5 {
			b = ssStatus(binary.BigEndian.Uint32(b[1:]), uint32(f.B), "substituted").encode()[4:]
		}
	case 9:
		// a well-formed failure STATUS whose message is long and not ASCII (f.B selects the text): a localised error
		// text, a long path in another script, bytes that are not UTF-8 at all
		if len(b) >= 5 {
			unit := []string{"é", "日本語のエラー", "\xff\xfe", "a\u0301", "x"}[int(f.B)%5]
			n := []int{300, 700, 1100, 2500, 40000}[int(f.B/5)%5]
			msg := strings.Repeat(unit, n/len(unit)+1)
			b = ssStatus(binary.BigEndian.Uint32(b[1:]), 4, msg).encode()[4:]
		}
	}
	return b
}

func c20Exec(r *vfRun) {
	sc, sim := r.sc, r.sim
	if len(sc.Ops) == 0 {
		return
	}
	srv := vfNewScriptServer(sim)
	tag := sc.Seed
	srv.files["/a"] = vfFill(tag^1, 0, 11)
	srv.files["/w"] = nil
	srv.addDir("/dir", "e1", "e2", "e3", "e4")
	srv.exts = [][2]string{{"fsync@openssh.com", "1"}}
	vfClientSites(sim, 1|2|4)
	P, M := int(sc.cfg("P", 4)), int(sc.cfg("M", 2))
	if sc.cfg("hugeP", 0) != 0 {
		// an application that asked for very large packets (MaxPacketUnchecked accepts any size). Transfers that allocate
		// their chunk buffers in that size do what they were asked to - the bound on allocation is about what a *reply*
		// can make the client allocate - so those programs keep the small packet size.
		big := true
		for _, op := range sc.Ops {
			switch op.K {
			case "writeto", "readfrom", "readfromc", "write", "writeat":
				big = false
			}
		}
		if big {
			P = 64 << 20
		}
	}
	c, err := vfStartClient(sim, srv.c2s, srv.s2c, MaxPacketUnchecked(P), MaxConcurrentRequestsPerFile(M),
		UseConcurrentReads(sc.cfg("concr", 1) != 0), UseConcurrentWrites(sc.cfg("concw", 0) != 0), UseFstat(sc.cfg("fstat", 0) != 0))
	if err != nil {
		r.fail("C20/handshake", "handshake", "handshake failed: %v", err)
		return
	}
	env := &vfClientEnv{sim: sim, prop: "C20", c: c, files: map[int]*File{}, tag: tag}
	target := sc.Ops[0]
	var fault *vfFault
	for i := range sc.Faults {
		if sc.Faults[i].K == "mutate" {
			fault = &sc.Faults[i]
		}
	}
	sticky := fault != nil && len(fault.S) >= 6 && fault.S[len(fault.S)-6:] == "sticky"
	armed := false
	nreq := 0
	mutated := 0
	var stickyType byte
	gold := &c20Golden{}
	r.res.Extra = gold
	srv.override = func(rq *ssReq) []byte {
		if !armed {
			return nil
		}
		idx := nreq
		nreq++
		p := srv.model(rq.q)
		raw := p.encode()
		body := raw[4:]
		if fault == nil {
			gold.replies = append(gold.replies, append([]byte(nil), body...))
			return raw
		}
		if idx == int(fault.At) || (sticky && mutated > 0 && body[0] == stickyType) {
			if mutated == 0 {
				stickyType = body[0]
			}
			mutated++
			sim.count("fault.peer.mutate")
			nb := c20Mutate(body, *fault, sc.Seed)
			sim.tracef("peer mutates reply %d: % x -> % x", idx, body, nb)
			if fault.A == 10 {
				// the frame announces far more than follows (and far more than a frame may hold); the body is sent as it was
				fr := wFrame(nb)
				binary.BigEndian.PutUint32(fr, []uint32{256*1024 + 1, 1 << 20, 48 << 20, 0x7fffffff, 0xffffffff}[int(fault.B)%5])
				return fr
			}
			return wFrame(nb)
		}
		return raw
	}
	prog := []vfOp{
		{K: "open", P: "/a", H: 0}, {K: "open", P: "/a", H: 1}, {K: "open", P: "/w", H: 2, A: int64(os.O_RDWR)},
		{K: "arm"}, target, {K: "disarm"}, {K: "stat", P: "/probe"},
	}
	results := make([]*vfOpResult, len(prog))
	var allocBefore, allocAfter uint64
	s2cBefore := 0
	tk := vfSpawnTask(sim, 0, len(prog), func(i int) {
		switch prog[i].K {
		case "arm":
			var ms runtime.MemStats
			runtime.ReadMemStats(&ms)
			allocBefore = ms.TotalAlloc
			s2cBefore = len(srv.s2c.buf)
			armed = true
		case "disarm":
			armed = false
			var ms runtime.MemStats
			runtime.ReadMemStats(&ms)
			allocAfter = ms.TotalAlloc
		default:
			results[i] = env.do(prog[i])
		}
	})
	sim.run(tk.finished)
	if sim.failed() {
		return
	}
	if !tk.finished() {
		env.mu.Lock()
		sink := env.sink
		env.mu.Unlock()
		if sink != nil && sink.buf.Len() > 500 {
			// the mutated replies are valid data packets: the peer serves an endless file and
			// WriteTo keeps delivering it; that is progress, not a stuck call
			r.res.Skipped = "endless-valid-data"
			return
		}
		what := "the call"
		if results[4] != nil && results[4].Returned {
			what = "the following Stat"
		}
		r.fail("C20/call-never-returns", target.K, "%s did not return within %d steps after the mutated reply %+v (target %+v); blocked: %v", what, sim.steps, fault, target, vfBubbleGoroutines())
		return
	}
	for i := 0; i < 3; i++ {
		if results[i].Err != nil {
			r.fail("C20/setup", "setup", "setup failed: %v", results[i].Err)
			return
		}
	}
	// memory: out of proportion to the bytes received?
	recvd := len(srv.s2c.buf) - s2cBefore
	if grown := int64(allocAfter - allocBefore); grown > 8<<20+int64(256*recvd) {
		r.fail("C20/allocation-out-of-proportion", target.K, "the call allocated %d bytes while %d reply bytes were received (mutation %+v)", grown, recvd, fault)
		return
	}
	// whatever the call returned must be usable without crashing
	if tr := results[4]; tr != nil && tr.Err == nil {
		vfGuard(sim, "C20", "using the value returned by "+target.K, func() {
			for _, fi := range tr.Infos {
				_ = fi.Name() + fi.Mode().String()
				_ = fi.Size() + fi.ModTime().Unix()
				_ = fi.IsDir()
			}
			if target.K == "open" {
				if f := env.file(5); f == nil {
					panic("Open returned a nil *File and a nil error")
				}
			}
		})
		if sim.failed() {
			return
		}
	}
	probe := results[len(prog)-1]
	usable := false
	if probe.Err == nil {
		at, _ := srv.attrsFor("/probe")
		if probe.Size != int64(at.Size) || probe.Mtime != int64(at.Mtime) {
			r.fail("C20/client-confused-afterwards", target.K, "after the mutated reply a Stat returned another request's answer: size=%d mtime=%d want %d %d", probe.Size, probe.Mtime, at.Size, at.Mtime)
			return
		}
		usable = true
		sim.count("probe.client_still_usable")
	} else {
		sim.count("probe.client_failed_cleanly")
	}
	// either way Close must return and nothing may be left behind
	closer := vfSpawnTask(sim, 98, 1, func(i int) { c.Close() })
	sim.run(closer.finished)
	if !closer.finished() {
		r.fail("C20/close-hangs-afterwards", target.K, "Close did not return after the mutated reply %+v (client usable: %v); blocked: %v", fault, usable, vfBubbleGoroutines())
		return
	}
	sim.run(nil)
	if left := vfBubbleGoroutines(); len(left) > 0 {
		r.fail("C20/goroutine-leak", c04LeakSig(left), "after Close %d package goroutines are still alive: %v", len(left), left)
		return
	}
	r.res.NonTrivial = mutated > 0
}
