//go:build verif

package sftp

// C11 — handles are unique, die on close, and all resources are released once.

import (
	"bytes"
	"errors"
	"fmt"
	"io"
	"math/rand/v2"
	"os"
	"strings"
)

func init() {
	vfRegister(&vfProp{
		id:        "C11",
		classes:   []string{"os", "os-alloc", "rs", "rs-alloc", "rs-park", "rs-noclose", "rs-closeerr", "rs-listerr", "rs-srvclose"},
		gen:       c11Gen,
		exec:      c11Exec,
		enumerate: c11Enumerate,
		valid:     vfValidSessionProgram,
		maxSteps:  60000,
	})
}

func c11Program(rng *rand.Rand) []vfOp {
	ops := []vfOp{{K: "init", A: 3}}
	n := 3 + rng.IntN(28)
	slot := 0
	var open, closed []int
	dirslot := map[int]bool{}
	woff := 200
	for len(ops) < n {
		x := rng.IntN(100)
		use := func() int {
			y := rng.IntN(10)
			switch {
			case y == 0:
				return -1 - rng.IntN(6) // bogus strings, (-4) a guessed numeric handle, (-5,-6) other spellings of a live one
			case y <= 2 && len(closed) > 0:
				return closed[rng.IntN(len(closed))]
			case len(open) > 0:
				return open[rng.IntN(len(open))]
			}
			return -1
		}
		useM := func() int { // for requests that change state: no guessed handles (their effect could not be attributed)
			if h := use(); h > -4 {
				return h
			}
			return -1
		}
		switch {
		case x < 22 && len(open) < 12:
			p := []string{"f0", "f1", "d/a", "nx", "new0", "d"}[rng.IntN(6)]
			pf := int64(wfRead | wfWrite)
			if p == "new0" {
				pf |= wfCreat
			}
			if rng.IntN(5) == 0 {
				pf = wfRead
			}
			ops = append(ops, vfOp{K: "open", P: p, A: pf, H: slot})
			open = append(open, slot)
			slot++
		case x < 30 && len(open) < 12:
			ops = append(ops, vfOp{K: "opendir", P: []string{"d", "nx", ".", "f0", "d/a"}[rng.IntN(5)], H: slot})
			open = append(open, slot)
			dirslot[slot] = true
			slot++
		case x < 48:
			ops = append(ops, vfOp{K: "read", H: use(), Off: int64(rng.IntN(40)), N: 1 + rng.IntN(16)})
		case x < 62:
			n := 1 + rng.IntN(6)
			ops = append(ops, vfOp{K: "write", H: useM(), Off: int64(woff), N: n, B: int64(rng.IntN(100))})
			woff += n
		case x < 68:
			ops = append(ops, vfOp{K: "readdir", H: use()})
		case x < 72:
			ops = append(ops, vfOp{K: "fstat", H: use()})
		case x < 74:
			// a request on the handle that is served through the command path (the handle's objects must survive it)
			ops = append(ops, vfOp{K: "fsetstat", H: useM(), B: waPerm, N: 0o600 + rng.IntN(64)})
		case x < 92:
			h := useM()
			ops = append(ops, vfOp{K: "close", H: h})
			for i, s := range open {
				if s == h {
					open = append(open[:i:i], open[i+1:]...)
					closed = append(closed, h)
					break
				}
			}
			if rng.IntN(2) == 0 {
				ops = append(ops, vfOp{K: "wait"})
			}
		case x < 96:
			ops = append(ops, vfOp{K: "wait"})
		default:
			ops = append(ops, vfOp{K: "stat", P: []string{"f0", "nx", "d"}[rng.IntN(3)]})
		}
	}
	return ops
}

func c11Base(class string, seed uint64) *vfScenario {
	rng := vfRng(seed, 1)
	sc := &vfScenario{Cfg: map[string]int64{}}
	switch class {
	case "os":
		sc.Cfg["kind"] = 0
	case "os-alloc":
		sc.Cfg["kind"], sc.Cfg["alloc"] = 0, 1
	case "rs":
		sc.Cfg["kind"] = 1
	case "rs-alloc":
		sc.Cfg["kind"], sc.Cfg["alloc"] = 1, 1
	case "rs-park":
		sc.Cfg["kind"], sc.Cfg["parkdata"] = 1, 1
	case "rs-noclose":
		sc.Cfg["kind"] = 1
		sc.Cfg["noterr"] = 1
	case "rs-listerr":
		// some ListAt calls of directory listers fail with an ordinary error: the lister stays the handle's, to be
		// closed once when the handle goes
		sc.Cfg["kind"] = 1
		for i := 0; i < 1+rng.IntN(2); i++ {
			sc.Faults = append(sc.Faults, vfFault{K: "listerr", At: int64(rng.IntN(5))})
		}
	case "rs-srvclose":
		// the session is ended from the server's side (RequestServer.Close) with whatever handles are open
		sc.Cfg["kind"], sc.Cfg["srvclose"] = 1, 1
	case "rs-closeerr":
		// some handler objects fail in Close(): the handle must die all the same, and be closed once
		sc.Cfg["kind"] = 1
		for i := 0; i < 1+rng.IntN(3); i++ {
			sc.Faults = append(sc.Faults, vfFault{K: "closeerr", At: int64(rng.IntN(6))})
		}
	}
	if sc.Cfg["kind"] == 1 {
		sc.Cfg["hopt"] = int64([]int{0, 1, 1 | 128, 8}[rng.IntN(4)])
	}
	sc.Cfg["sites"] = int64(1 + rng.IntN(3))
	sc.Cfg["errwithdata"] = int64(rng.IntN(2))
	sc.Ops = c11Program(rng)
	return sc
}

type c11Gold struct {
	bounds []int // end offset of every request in the client->server stream
}

func c11Golden(sc *vfScenario) *c11Gold {
	g := sc.clone()
	g.Faults = nil
	g.Prop = "C11"
	res := vfExecute(vfT, g, false)
	gold, _ := res.Extra.(*c11Gold)
	return gold
}

func c11Gen(class string, seed uint64, tier string) *vfScenario {
	sc := c11Base(class, seed)
	rng := vfRng(seed, 2)
	if rng.IntN(6) == 0 {
		return sc // clean close after the whole session
	}
	gold := c11Golden(sc)
	if gold == nil || len(gold.bounds) == 0 {
		return sc
	}
	total := gold.bounds[len(gold.bounds)-1]
	var at int
	if rng.IntN(2) == 0 {
		at = gold.bounds[rng.IntN(len(gold.bounds))] // after a request
	} else {
		at = rng.IntN(total + 1) // anywhere, mostly inside a packet
	}
	sc.Faults = []vfFault{{K: "cut", At: int64(at), A: int64(rng.IntN(3))}}
	return sc
}

// c11Enumerate: for a number of sessions, the link ends after every request boundary and
// at one tape-independent byte inside every packet, as clean EOF and as an error.
func c11Enumerate(tier string, base uint64, emit func(*vfScenario)) {
	nbase := 10
	if tier == "thorough" {
		nbase = 150
	}
	classes := []string{"os", "rs", "rs-park", "os-alloc", "rs-alloc"}
	for i := 0; i < nbase; i++ {
		class := classes[i%len(classes)]
		seed := vfMix(vfMix(base, 0xc11e), uint64(i))
		b := c11Base(class, seed)
		b.Prop, b.Class, b.Seed = "C11", "enum-"+class, seed
		gold := c11Golden(b)
		if gold == nil {
			continue
		}
		prev := 0
		for _, end := range gold.bounds {
			for _, at := range []int{end, prev + 1 + int(vfMix(seed, uint64(end))%uint64(end-prev))} {
				if at > end {
					at = end
				}
				for kind := 0; kind < 2; kind++ {
					sc := b.clone()
					sc.Faults = []vfFault{{K: "cut", At: int64(at), A: int64(kind)}}
					emit(sc)
				}
			}
			prev = end
		}
	}
}

func c11FdCensus(root string) []string {
	var out []string
	ents, _ := os.ReadDir("/proc/self/fd")
	for _, e := range ents {
		t, err := os.Readlink("/proc/self/fd/" + e.Name())
		if err == nil && strings.HasPrefix(t, root) {
			out = append(out, t)
		}
	}
	return out
}

func c11Exec(r *vfRun) {
	sc := r.sc
	s := vfStartSession(r, sc.Ops)
	defer s.cleanup()
	sim := s.sim
	wc := s.wc
	gold := &c11Gold{}
	r.res.Extra = gold
	cutAt, cutKind := -1, 0
	for _, f := range sc.Faults {
		if f.K == "cut" {
			cutAt, cutKind = int(f.At), int(f.A)
			s.srv.c2s.cutAt = cutAt
			s.srv.c2s.cutErr = []error{io.EOF, io.ErrUnexpectedEOF, vfErrLinkReset}[cutKind%3]
		}
	}
	closeErrs := false
	for _, f := range sc.Faults {
		if f.K == "listerr" && s.fs != nil {
			s.fs.planFault("ListAt", int(f.At), errors.New("listing failed: stale handle"))
		}
		if f.K == "closeerr" && s.fs != nil {
			s.fs.planFault("Close", int(f.At), errors.New("close failed: quota exceeded"))
			closeErrs = true
		}
	}
	repliesAtSend := map[int]int{}
	wc.onSend = func(i int, q *wReq) {
		repliesAtSend[i] = len(wc.replies)
	}
	// contexts: cancelled no later than the quiescent point after the object was closed
	if s.fs != nil {
		sim.inv = func() {
			s.fs.mu.Lock()
			defer s.fs.mu.Unlock()
			for _, o := range s.fs.objs {
				if o.closes > 0 && o.ctx != nil && o.kind != "stat" {
					select {
					case <-o.ctx.Done():
					default:
						sim.fail("C11/context-not-cancelled", "ctx-after-close", "object %d (%s) has been closed but the context given to its open handler is still live", o.id, o.path)
					}
				}
			}
		}
	}
	sim.run(nil)
	if sim.failed() {
		return
	}
	// request boundaries in the stream (for generators)
	off := 0
	for _, q := range wc.reqs {
		off += len(q.encode())
		gold.bounds = append(gold.bounds, off)
	}
	if sc.cfg("srvclose", 0) != 0 && s.srv.rs != nil {
		rs := s.srv.rs
		tk := vfSpawnTask(sim, 77, 1, func(int) { rs.Close() })
		sim.run(tk.finished)
		sim.run(func() bool { d, _ := s.srv.served(); return d })
		sim.count("fault.session_closed_by_server")
	}
	s.finish()
	if sim.failed() {
		return
	}
	if done, _ := s.srv.served(); !done {
		r.fail("C11/serve-did-not-return", "serve", "Serve did not return after the link ended (cut=%d kind=%d); blocked: %v", cutAt, cutKind, vfBubbleGoroutines())
		return
	}
	if wc.parseErr != nil {
		r.fail("C11/reply-stream-malformed", "framing", "%v", wc.parseErr)
		return
	}
	delivered := s.srv.c2s.rdOff
	// which requests reached the server completely
	nDelivered := 0
	for i := range wc.reqs {
		if gold.bounds[i] <= delivered {
			nDelivered = i + 1
		}
	}
	if len(wc.replies) > nDelivered {
		r.fail("C11/extra-reply", "count", "%d replies for %d completely delivered requests", len(wc.replies), nDelivered)
		return
	}
	// ---- handle model
	type hstate struct {
		handle   string
		dir      bool
		file     string
		closeReq int // index of the first CLOSE naming it, -1
	}
	slots := map[int]*hstate{}
	seenHandle := map[string]int{}
	ref := map[string][]byte{}
	for _, f := range vfInitFiles {
		ref[f.p] = vfFill(s.tag^vfHashStr(f.p), 0, f.n)
	}
	var openOrder []*hstate // successful opens in server order
	for i := 0; i < len(wc.replies); i++ {
		q, p, op := wc.reqs[i], wc.replies[i], wc.ops[i]
		switch op.K {
		case "open", "opendir":
			if p.Type == wtHandle {
				if j, dup := seenHandle[p.Handle]; dup {
					r.fail("C11/handle-reused", "dup", "handle %q was issued twice in one session (requests %d and %d)", p.Handle, j, i)
					return
				}
				seenHandle[p.Handle] = i
				hs := &hstate{handle: p.Handle, dir: op.K == "opendir", file: op.P, closeReq: -1}
				slots[op.H] = hs
				openOrder = append(openOrder, hs)
				if op.K == "open" && op.P == "new0" {
					if _, ok := ref["new0"]; !ok {
						ref["new0"] = nil
					}
				}
			}
			continue
		}
		if !vfOpUsesHandle(op.K) {
			continue
		}
		hs := slots[op.H]
		ambiguous := false
		if op.H < 0 {
			// a bogus or guessed handle: if the string is one the server issued at any time in this
			// session it names that handle - provided the client had seen it issued when it sent the request;
			// a guess that comes true later (or concurrently) may legally succeed or fail.
			hs = nil
			for j := 0; j < len(wc.replies); j++ {
				if wc.replies[j].Type == wtHandle && wc.replies[j].Handle == q.Handle && (wc.ops[j].K == "open" || wc.ops[j].K == "opendir") {
					if j < i && j < repliesAtSend[i] {
						hs = slots[wc.ops[j].H]
					} else {
						ambiguous = true
					}
				}
			}
		}
		if ambiguous {
			sim.count("probe.guessed_handle_raced_with_open")
			continue
		}
		state := "never"
		if hs != nil {
			state = "open"
			if hs.closeReq >= 0 {
				if hs.closeReq < repliesAtSend[i] {
					state = "closed"
				} else {
					state = "closing" // the CLOSE was still in flight when this was sent: either outcome is legal
				}
			}
		}
		ok := (p.Type != wtStatus) || p.Code == wsOK || (p.Code == wsEOF && (op.K == "read" || op.K == "readdir"))
		switch state {
		case "never", "closed":
			if ok {
				r.fail("C11/dead-handle-accepted", op.K+"-"+state, "request %d %v names a handle that is %s, but it was answered %v", i, q, map[string]string{"never": "not issued in this session", "closed": "closed (its CLOSE had been acknowledged)"}[state], p)
				return
			}
			sim.count("probe.dead_handle_used")
		case "open":
			if op.K == "close" {
				if !ok && !closeErrs {
					r.fail("C11/close-failed", "close", "CLOSE of a live handle was answered %v", p)
					return
				}
			}
		}
		if (state == "open" || state == "closing") && op.K == "write" && ok && !hs.dir {
			// (while the CLOSE is still in flight the write may legally win the race)
			end := int(op.Off) + op.N
			d := ref[hs.file]
			if end > len(d) {
				d = append(d, make([]byte, end-len(d))...)
			}
			copy(d[op.Off:], q.Data)
			ref[hs.file] = d
		}
		if op.K == "close" && hs != nil && hs.closeReq < 0 {
			hs.closeReq = i
		}
	}
	// ---- a dead handle never touches a file: final content equals the model
	// (requests that were delivered but whose replies are not known cannot exist: the reply direction is never cut)
	if len(wc.replies) == nDelivered {
		for f, want := range ref {
			var got []byte
			var exists bool
			if s.fs != nil {
				got, exists = s.fs.fileData("/" + f)
			} else {
				b, err := os.ReadFile(s.root + "/" + f)
				got, exists = b, err == nil
			}
			if !exists && f == "new0" && len(want) == 0 {
				continue
			}
			if !bytes.Equal(got, want) {
				r.fail("C11/file-touched", "content", "file %s differs from the model (only requests on live handles may change it): got %x want %x", f, vfHead(got), vfHead(want))
				return
			}
		}
	} else {
		r.fail("C11/missing-reply", "count", "%d requests were delivered completely but only %d replies were emitted before Serve returned", nDelivered, len(wc.replies))
		return
	}
	// ---- resources
	if s.root != "" {
		if left := c11FdCensus(s.root); len(left) > 0 {
			r.fail("C11/file-left-open", "fd", "Serve returned but %d files of the served tree are still open: %v", len(left), left)
			return
		}
	}
	if s.fs != nil {
		s.fs.mu.Lock()
		defer s.fs.mu.Unlock()
		k := 0
		for _, o := range s.fs.objs {
			if o.kind == "stat" {
				if s.fs.withClose && o.closes != 1 {
					r.fail("C11/lister-not-closed", "stat-lister", "the lister obtained from the handler for a %s of %s was closed %d times, want exactly once", "stat-like request", o.path, o.closes)
					return
				}
				continue
			}
			// the k-th handle object belongs to the k-th successful open
			var hs *hstate
			if k < len(openOrder) {
				hs = openOrder[k]
			}
			k++
			if s.fs.withClose && o.closes != 1 {
				r.fail("C11/close-count", "closes", "object %d (%s, %s) was closed %d times by the time Serve returned, want exactly once", o.id, o.kind, o.path, o.closes)
				return
			}
			if hs == nil {
				// opened by a request whose reply we never saw: cannot happen (reply direction intact)
				r.fail("C11/unknown-object", "objects", "the handlers created more objects (%d) than HANDLE replies were sent (%d)", len(s.fs.objs), len(openOrder))
				return
			}
			wantTerr := 0
			if hs.closeReq < 0 || hs.closeReq >= nDelivered {
				wantTerr = 1 // still open when the session ended
			}
			if o.kind == "ls" {
				wantTerr = 0 // listers have no TransferError in Request.transferError
			}
			if s.fs.withTErr && o.terrs != wantTerr {
				r.fail("C11/transfer-error-count", fmt.Sprintf("terr-%d-want-%d", o.terrs, wantTerr), "object %d (%s, %s): TransferError was called %d times, want %d (handle still open at the end: %v)", o.id, o.kind, o.path, o.terrs, wantTerr, wantTerr == 1)
				return
			}
			if o.ctx != nil {
				select {
				case <-o.ctx.Done():
				default:
					r.fail("C11/context-not-cancelled", "ctx-at-end", "Serve returned but the context given to the open handler of object %d (%s) is still live", o.id, o.path)
					return
				}
			}
			if wantTerr == 1 {
				sim.count("probe.handle_open_at_session_end")
			}
		}
	}
	if cutAt >= 0 && delivered == cutAt {
		sim.count("probe.session_cut")
		inside := true
		for _, b := range gold.bounds {
			if b == cutAt {
				inside = false
			}
		}
		if inside && cutAt > 0 {
			sim.count("probe.cut_inside_packet")
		} else {
			sim.count("probe.cut_at_request_boundary")
		}
	}
	r.res.NonTrivial = len(openOrder) > 0 && len(wc.reqs) >= 4
}
