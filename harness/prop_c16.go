//go:build verif

package sftp

// C16 — a directory listing returns every entry exactly once.

import (
	"fmt"
	"os"
	"os/user"
	"sort"
	"strings"
	"syscall"
	"time"
)

func init() {
	vfRegister(&vfProp{
		id:       "C16",
		classes:  []string{"os", "rs", "rs", "rs-alloc", "inmem", "rs-wire", "os-wire", "inmem-wire"},
		gen:      c16Gen,
		exec:     c16Exec,
		maxSteps: 400000,
	})
}

func c16Gen(class string, seed uint64, tier string) *vfScenario {
	rng := vfRng(seed, 1)
	sc := &vfScenario{Cfg: map[string]int64{}}
	switch class {
	case "os":
		sc.Cfg["kind"] = 0
		sc.Cfg["alloc"] = int64(rng.IntN(2))
		sc.Cfg["n"] = int64([]int{0, 1, 2, 5, 127, 128, 129, 255, 256, 257, 300}[rng.IntN(11)])
		if rng.IntN(3) == 0 {
			sc.Cfg["n"] = int64(rng.IntN(40))
		}
		if rng.IntN(3) == 0 {
			sc.Cfg["names"] = 3 // long names: one batch of 128 entries is larger than a data packet
		}
		if rng.IntN(4) == 0 {
			// a server configured with a raised maximum data payload, up to values at which 32-bit products wrap
			sc.Cfg["maxtx"] = int64([]int64{32769, 65536, 262144, 1 << 20, 1 << 24, 1 << 25, 1<<25 + 100, 1 << 26, 1 << 30, 1 << 31, 1<<32 - 1}[rng.IntN(11)])
		}
	case "rs", "rs-alloc":
		sc.Cfg["kind"] = 1
		if class == "rs-alloc" {
			sc.Cfg["alloc"] = 1
		}
		B := 1 + rng.IntN(12)
		if rng.IntN(5) == 0 {
			B = []int{100, 128, 130}[rng.IntN(3)]
		}
		sc.Cfg["B"] = int64(B)
		// every size from 0 to beyond twice the batch size
		sc.Cfg["n"] = int64(rng.IntN(2*B + 3))
		if B >= 100 {
			sc.Cfg["n"] = int64([]int{B - 1, B, B + 1, 2*B - 1, 2 * B, 2*B + 1, 2*B + 2}[rng.IntN(7)])
		}
		sc.Cfg["liststyle"] = int64(rng.IntN(4))
		sc.Cfg["names"] = int64(rng.IntN(3))  // 0 plain, 1 with . and .., 2 odd names
		sc.Cfg["shapes"] = int64(rng.IntN(2)) // 1: entries differ in which attributes they carry
		sc.Cfg["hopt"] = int64([]int{0, 128}[rng.IntN(2)])
		sc.Cfg["parkdata"] = int64(rng.IntN(2))
	case "rs-wire":
		// a wire-level client lists several directories at once, its READDIR requests pipelined
		sc.Cfg["kind"], sc.Cfg["wire"] = 1, 1
		sc.Cfg["alloc"] = int64(rng.IntN(2))
		B := 1 + rng.IntN(6)
		sc.Cfg["B"] = int64(B)
		sc.Cfg["ndirs"] = int64(2 + rng.IntN(2))
		sc.Cfg["n"] = int64(rng.IntN(3*B + 2))
		sc.Cfg["liststyle"] = int64(rng.IntN(4))
		sc.Cfg["hopt"] = int64([]int{0, 128}[rng.IntN(2)])
		sc.Cfg["window"] = int64([]int{0, 0, 2, 4}[rng.IntN(4)])
		sc.Cfg["sites"] = int64(1 + rng.IntN(3))
		if rng.IntN(2) == 0 {
			// a READ sent first whose backend call the scheduler holds back: the listing replies behind it wait,
			// finished but not yet marshalled, in the packet manager while the worker goes on
			sc.Cfg["blocker"], sc.Cfg["parkdata"] = 1, 1
		}
		return sc
	case "os-wire":
		// the same against the os-backed server (batches of 128)
		sc.Cfg["kind"], sc.Cfg["wire"] = 0, 1
		sc.Cfg["alloc"] = int64(rng.IntN(2))
		sc.Cfg["ndirs"] = int64(2 + rng.IntN(2))
		sc.Cfg["n"] = int64(rng.IntN(300))
		sc.Cfg["window"] = int64([]int{0, 0, 2, 4}[rng.IntN(4)])
		sc.Cfg["sites"] = int64(1 + rng.IntN(3))
		if rng.IntN(2) == 0 {
			sc.Cfg["blocker"], sc.Cfg["sites"] = 1, int64(1+2*rng.IntN(2))
		}
		return sc
	case "inmem-wire":
		// the package's own in-memory backend; the directory changes between two READDIRs of one open handle
		sc.Cfg["kind"], sc.Cfg["wire"] = 3, 1
		B := 2 + rng.IntN(5)
		sc.Cfg["B"] = int64(B)
		sc.Cfg["n"] = int64(B + 1 + rng.IntN(2*B))
		sc.Cfg["change"] = int64(rng.IntN(3)) // 0 none, 1 an entry that sorts first is removed, 2 one that sorts first is created
		sc.Cfg["relist"] = int64(rng.IntN(2)) // afterwards: create entries through a symlink to the directory and list it again
		sc.Cfg["after"] = int64(1 + rng.IntN(3))
		sc.Cfg["sites"] = int64(1 + rng.IntN(3))
		return sc
	case "inmem":
		sc.Cfg["kind"] = 3
		B := 1 + rng.IntN(6)
		sc.Cfg["B"] = int64(B)
		sc.Cfg["n"] = int64(rng.IntN(2*B + 3))
	}
	sc.Cfg["P"], sc.Cfg["M"] = 32768, 64
	sc.Cfg["ssites"] = int64(1 + rng.IntN(3))
	sc.Cfg["csites"] = int64(rng.IntN(4))
	return sc
}

func c16Names(n int, style int, seed uint64) []string {
	var out []string
	for i := 0; i < n; i++ {
		name := fmt.Sprintf("e%04d", i)
		if style == 3 {
			name = fmt.Sprintf("%s-%s", name, strings.Repeat("n", 100+int(vfMix(seed, uint64(i))%150)))
		}
		if style == 2 {
			switch vfMix(seed, uint64(i)) % 6 {
			case 0:
				name = fmt.Sprintf("%s-%s", name, strings.Repeat("x", 200))
			case 1:
				name = fmt.Sprintf("\xff\xfe%d\x80", i)
			case 2:
				name = fmt.Sprintf(" %d .", i)
			case 3:
				name = fmt.Sprintf("...%d", i)
			case 4:
				name = fmt.Sprintf("..%d", i)
			}
		}
		out = append(out, name)
	}
	return out
}

// c16Wire: several directory handles, READDIR requests of all of them pipelined round-robin; every handle's NAME
// replies together must hold that directory's entries exactly once, then EOF.
func c16Wire(r *vfRun) {
	sc := r.sc
	B := int(sc.cfg("B", 3))
	old := MaxFilelist
	MaxFilelist = int64(B)
	defer func() { MaxFilelist = old }()
	nd := int(sc.cfg("ndirs", 2))
	if nd < 1 || nd > 4 {
		nd = 2
	}
	n := int(sc.cfg("n", 3))
	prog := []vfOp{{K: "init", A: 3}}
	sizes := make([]int, nd)
	kind0 := sc.cfg("kind", 1) == 0
	for d := 0; d < nd; d++ {
		sizes[d] = (n + d*(B+1)) % (3*B + 3)
		if kind0 {
			// around the batch size of 128 in a third of the runs, small otherwise (creating the files is what costs)
			big := 120 + n%20
			if n%3 != 0 {
				big = n % 40
			}
			sizes[d] = []int{big, (n * 7) % 40, 126 + n%5, 3}[d%4]
			if d == 2 && n%3 == 0 {
				sizes[d] = n % 9
			}
		}
		prog = append(prog, vfOp{K: "opendir", P: fmt.Sprintf("/w%d", d), H: d})
	}
	blocker := sc.cfg("blocker", 0) != 0
	if blocker {
		prog = append(prog, vfOp{K: "open", P: "/f0", A: 1, H: 9})
	}
	prog = append(prog, vfOp{K: "wait"})
	if blocker {
		prog = append(prog, vfOp{K: "read", H: 9, Off: 0, N: 10})
	}
	rounds := 3*B + 3 + 2 // enough even if every batch comes back with a single entry
	if kind0 {
		rounds = 300/128 + 3
	}
	for i := 0; i < rounds; i++ {
		for d := 0; d < nd; d++ {
			prog = append(prog, vfOp{K: "readdir", H: d})
		}
	}
	for d := 0; d < nd; d++ {
		prog = append(prog, vfOp{K: "close", H: d})
	}
	s := vfStartSession(r, prog)
	defer s.cleanup()
	want := make([]map[string]int64, nd)
	if kind0 {
		if s.root == "" {
			r.res.Skipped = "invalid-program"
			return
		}
		for d := 0; d < nd; d++ {
			dir := fmt.Sprintf("%s/w%d", s.root, d)
			os.Mkdir(dir, 0o755)
			want[d] = map[string]int64{}
			for i := 0; i < sizes[d]; i++ {
				name := fmt.Sprintf("d%d-e%03d", d, i)
				os.WriteFile(dir+"/"+name, make([]byte, (7*d+i)%40), os.FileMode(0o600+(i*37)%0o200))
				os.Chtimes(dir+"/"+name, time.Unix(1000000000, 0), time.Unix(1000000000+int64(i)*86400*40, 0))
				want[d][name] = int64((7*d + i) % 40)
			}
		}
	} else if s.fs == nil {
		r.res.Skipped = "invalid-program"
		return
	}
	if s.fs != nil {
		s.fs.mu.Lock()
	}
	for d := 0; d < nd && s.fs != nil; d++ {
		dir := fmt.Sprintf("/w%d", d)
		s.fs.nodes[dir] = &sfNode{kind: 'd', mode: os.ModeDir | 0o755, mtime: 946684800}
		want[d] = map[string]int64{}
		for i := 0; i < sizes[d]; i++ {
			name := fmt.Sprintf("d%d-e%03d", d, i)
			s.fs.nodes[dir+"/"+name] = &sfNode{kind: 'f', data: make([]byte, (7*d+i)%40), mode: os.FileMode(0o600 + (i*37)%0o200), mtime: 1000000000 + int64(i)*86400*40, uid: uint32(100*d + i), gid: uint32(5 + i), shape: byte((d + i) % 5)}
			want[d][name] = int64((7*d + i) % 40)
		}
	}
	if s.fs != nil {
		s.fs.mu.Unlock()
	}
	sim := s.sim
	sim.run(nil)
	if sim.failed() {
		return
	}
	c02CheckReplies(r, s.wc, true)
	if sim.failed() {
		r.sim.viol.Class = "C16/" + r.sim.viol.Class[4:]
		return
	}
	now := time.Now()
	lookup := func(id string, group bool) string {
		if kind0 {
			if group {
				if g, err := user.LookupGroupId(id); err == nil {
					return g.Name
				}
				return id
			}
			if u, err := user.LookupId(id); err == nil {
				return u.Username
			}
			return id
		}
		if sc.cfg("hopt", 0)&128 == 0 {
			return id
		}
		if group {
			return "g" + id
		}
		return "u" + id
	}
	got := make([]map[string]int, nd)
	ended := make([]bool, nd)
	for d := range got {
		got[d] = map[string]int{}
	}
	for i, op := range s.wc.ops {
		if op.K != "readdir" || op.H < 0 || op.H >= nd {
			continue
		}
		p := s.wc.replies[i]
		d := op.H
		switch {
		case p.Type == wtName:
			if ended[d] {
				r.fail("C16/entry-duplicated", "after-eof", "directory %d: a NAME reply with %d entries after the end of the listing had been reported", d, len(p.Names))
				return
			}
			for _, e := range p.Names {
				sz, ok := want[d][e.Name]
				if !ok {
					r.fail("C16/extra-entry", "foreign", "pipelined listings: the reply %v to a READDIR of directory %d holds %q, which is not in that directory (batch %d, %d directories)", p, d, e.Name, B, nd)
					return
				}
				if e.Attrs.Flags&waSize == 0 || int64(e.Attrs.Size) != sz {
					r.fail("C16/wrong-attributes", "wire-attrs", "directory %d entry %q came back with size %d, the handler reported %d", d, e.Name, e.Attrs.Size, sz)
					return
				}
				got[d][e.Name]++
				// the long name of the entry agrees with its structured attributes (owner, group, size, date, mode)
				if cl, msg := c17CheckLong(sim, e, now, lookup); msg != "" {
					r.fail("C16/wrong-attributes", "long-"+cl, "directory %d: %s", d, msg)
					return
				}
			}
		case p.Type == wtStatus && p.Code == wsEOF:
			ended[d] = true
		default:
			r.fail("C16/listing-failed", "wire-error", "READDIR of directory %d was answered %v", d, p)
			return
		}
	}
	for d := 0; d < nd; d++ {
		if !ended[d] {
			r.fail("C16/listing-never-terminates", "wire-liveness", "directory %d (%d entries, batch %d): %d READDIR requests did not reach the end of the listing", d, sizes[d], B, rounds)
			return
		}
		var names []string
		for name := range want[d] {
			names = append(names, name)
		}
		sort.Strings(names)
		for _, name := range names {
			if got[d][name] != 1 {
				cl := "C16/entry-lost"
				if got[d][name] > 1 {
					cl = "C16/entry-duplicated"
				}
				r.fail(cl, "wire", "pipelined listings: entry %q of directory %d (%d entries, batch %d) was returned %d times", name, d, sizes[d], B, got[d][name])
				return
			}
		}
	}
	sim.count("probe.pipelined_listings")
	s.finish()
	r.res.NonTrivial = true
}

// c16InMemWire: a wire-level session on the package's in-memory example backend. The directory is modified between two
// READDIRs of one handle; every entry that exists throughout the listing must still come back exactly once.
func c16InMemWire(r *vfRun) {
	sc, sim := r.sc, r.sim
	B := int(sc.cfg("B", 3))
	old := MaxFilelist
	MaxFilelist = int64(B)
	defer func() { MaxFilelist = old }()
	n := int(sc.cfg("n", 5))
	change, after := int(sc.cfg("change", 0)), int(sc.cfg("after", 1))
	sim.ticks = true
	prog := []vfOp{{K: "init", A: 3}, {K: "mkdir", P: "/dd"}}
	stable := map[string]bool{}
	for i := 0; i < n; i++ {
		name := fmt.Sprintf("m%03d", i)
		prog = append(prog, vfOp{K: "open", P: "/dd/" + name, A: wfWrite | wfCreat, H: 100 + i}, vfOp{K: "close", H: 100 + i})
		stable[name] = true
	}
	prog = append(prog, vfOp{K: "opendir", P: "/dd", H: 0})
	rounds := n/B + 4
	for i := 0; i < rounds; i++ {
		if i == after {
			switch change {
			case 1:
				prog = append(prog, vfOp{K: "remove", P: "/dd/m000"})
				delete(stable, "m000")
			case 2:
				prog = append(prog, vfOp{K: "open", P: "/dd/a000", A: wfWrite | wfCreat, H: 99}, vfOp{K: "close", H: 99})
			}
		}
		prog = append(prog, vfOp{K: "readdir", H: 0})
	}
	prog = append(prog, vfOp{K: "close", H: 0})
	// a second listing, after entries were created through another name of the directory (a symlink to it)
	relistAt := -1
	var second map[string]bool
	if sc.cfg("relist", 0) != 0 {
		prog = append(prog, vfOp{K: "symlink", P: "/ln", P2: "/dd"},
			vfOp{K: "open", P: "/ln/zc", A: wfWrite | wfCreat, H: 98}, vfOp{K: "close", H: 98}, vfOp{K: "mkdir", P: "/ln/zd"},
			vfOp{K: "opendir", P: "/dd", H: 1})
		relistAt = len(prog)
		for i := 0; i < (n+3)/B+3; i++ {
			prog = append(prog, vfOp{K: "readdir", H: 1})
		}
		prog = append(prog, vfOp{K: "close", H: 1})
		second = map[string]bool{"zc": true, "zd": true}
		for name := range stable {
			second[name] = true
		}
		if change == 2 {
			second["a000"] = true
		}
	}
	vfServerSites(sim, sc.cfg("sites", 3))
	srv := &vfServer{sim: sim, kind: 1}
	srv.c2s = sim.newPipe("c2s")
	srv.s2c = sim.newPipe("s2c")
	srv.end = &vfEnd{r: srv.c2s, w: srv.s2c, closeBoth: true}
	rs := NewRequestServer(srv.end, InMemHandler())
	srv.rs = rs
	go func() {
		err := rs.Serve()
		srv.mu.Lock()
		srv.done, srv.err = true, err
		srv.mu.Unlock()
		srv.end.Close()
	}()
	wc := vfNewWireClient(sim, srv.c2s, srv.s2c, prog)
	wc.window = 1
	sim.run(nil)
	if sim.failed() {
		return
	}
	r.sc.Cfg["kind"] = 1
	c02CheckReplies(r, wc, true)
	r.sc.Cfg["kind"] = 3
	if sim.failed() {
		r.sim.viol.Class = "C16/" + r.sim.viol.Class[4:]
		return
	}
	got := map[string]int{}
	got2 := map[string]int{}
	ended := false
	for i, op := range wc.ops {
		p := wc.replies[i]
		switch op.K {
		case "mkdir", "remove", "close", "symlink":
			if p.Type != wtStatus || p.Code != wsOK {
				r.fail("C16/setup", "setup", "%v answered %v", wc.reqs[i], p)
				return
			}
		case "open", "opendir":
			if p.Type != wtHandle {
				r.fail("C16/setup", "setup", "%v answered %v", wc.reqs[i], p)
				return
			}
		case "readdir":
			if relistAt >= 0 && i >= relistAt {
				if p.Type == wtName {
					for _, e := range p.Names {
						got2[e.Name]++
					}
				} else if p.Type != wtStatus || p.Code != wsEOF {
					r.fail("C16/listing-failed", "inmem-error", "READDIR answered %v", p)
					return
				}
				continue
			}
			switch {
			case p.Type == wtName:
				for _, e := range p.Names {
					got[e.Name]++
				}
			case p.Type == wtStatus && p.Code == wsEOF:
				ended = true
			default:
				r.fail("C16/listing-failed", "inmem-error", "READDIR answered %v", p)
				return
			}
		}
	}
	if !ended {
		r.fail("C16/listing-never-terminates", "inmem-liveness", "%d READDIR requests (batch %d) did not reach the end of a directory of %d entries", rounds, B, n)
		return
	}
	var names []string
	for name := range stable {
		names = append(names, name)
	}
	sort.Strings(names)
	what := []string{"nothing changed", "m000 was removed", "a000 was created"}[change%3]
	for _, name := range names {
		if got[name] != 1 {
			cl := "C16/entry-lost"
			if got[name] > 1 {
				cl = "C16/entry-duplicated"
			}
			r.fail(cl, "inmem-change", "entry %q exists during the whole listing (%d entries, batch %d; after READDIR number %d %s) but was returned %d times", name, n, B, after, what, got[name])
			return
		}
	}
	for name, c := range got {
		if !stable[name] && name != "m000" && name != "a000" && name != "." && name != ".." {
			r.fail("C16/extra-entry", "inmem-extra", "entry %q (x%d) is not in the directory", name, c)
			return
		}
	}
	if second != nil {
		var all []string
		for name := range second {
			all = append(all, name)
		}
		sort.Strings(all)
		for _, name := range all {
			if got2[name] != 1 {
				r.fail("C16/entry-lost", "inmem-relist", "after entries were created through a symlink to the directory, a new listing returned %q %d times (want once); it returned %d names for %d entries", name, got2[name], len(got2), len(second))
				return
			}
		}
		for name := range got2 {
			if !second[name] && name != "." && name != ".." {
				r.fail("C16/extra-entry", "inmem-relist", "the second listing holds %q, which is not in the directory", name)
				return
			}
		}
		sim.count("probe.listed_again_after_create_through_symlink")
	}
	if change != 0 {
		sim.count("probe.directory_changed_during_listing")
	}
	wc.mu.Lock()
	wc.closed = true
	wc.mu.Unlock()
	srv.c2s.closeWriter()
	sim.run(func() bool { d, _ := srv.served(); return d })
	r.res.NonTrivial = n > B
}

func c16Exec(r *vfRun) {
	if r.sc.cfg("wire", 0) != 0 && r.sc.cfg("kind", 0) == 3 {
		c16InMemWire(r)
		return
	}
	if r.sc.cfg("wire", 0) != 0 {
		c16Wire(r)
		return
	}
	sc, sim := r.sc, r.sim
	n := int(sc.cfg("n", 3))
	kind := int(sc.cfg("kind", 0))
	if b := sc.cfg("B", 0); b > 0 {
		old := MaxFilelist
		MaxFilelist = b
		defer func() { MaxFilelist = old }()
	}
	var v *vfFileSystem
	var err error
	type entry struct {
		size  int64
		perm  os.FileMode
		mtime int64
		uid   uint32
		gid   uint32
		ids   bool // uid and gid are compared
		ext   []StatExtended
	}
	want := map[string]entry{}
	dir := "dd"
	switch kind {
	case 0:
		v, err = vfStartFileSystem(r, nil)
		if v != nil && v.root != "" {
			os.Mkdir(v.root+"/dd", 0o755)
			for i, name := range c16Names(n, int(sc.cfg("names", 0)), sc.Seed) {
				p := v.root + "/dd/" + name
				if i%7 == 3 {
					os.Mkdir(p, 0o700)
				} else {
					os.WriteFile(p, make([]byte, i%50), os.FileMode(0o600+i%64))
				}
				fi, _ := os.Lstat(p)
				w := entry{size: fi.Size(), perm: fi.Mode() & (os.ModePerm | os.ModeDir), mtime: fi.ModTime().Unix()}
				if st, ok := fi.Sys().(*syscall.Stat_t); ok {
					w.uid, w.gid, w.ids = st.Uid, st.Gid, true
				}
				want[name] = w
			}
		}
	case 1:
		// simfs is created by vfStartFileSystem; add the directory before the listing
		v, err = vfStartFileSystem(r, nil)
		if v != nil && v.fs != nil {
			dir = "/dd"
			v.fs.mu.Lock()
			// (the directory has an owner and times of its own: they travel with the "." and ".." entries some listers report,
			// and belong to no other entry)
			v.fs.nodes["/dd"] = &sfNode{kind: 'd', mode: os.ModeDir | 0o755, mtime: 1234567890, uid: 4242, gid: 4343}
			names := c16Names(n, int(sc.cfg("names", 0)), sc.Seed)
			for i, name := range names {
				nd := &sfNode{kind: 'f', data: make([]byte, i%90), mode: os.FileMode(0o400 + i%256), mtime: 1000000000 + int64(i)*3, uid: uint32(1000 + i), gid: uint32(i)}
				if i%5 == 2 {
					nd.kind, nd.mode, nd.data = 'd', os.ModeDir|0o711, nil
				}
				v.fs.nodes["/dd/"+name] = nd
				w := entry{size: int64(len(nd.data)), perm: nd.mode & (os.ModePerm | os.ModeDir), mtime: nd.mtime, uid: nd.uid, gid: nd.gid, ids: true}
				if sc.cfg("shapes", 0) != 0 {
					switch nd.shape = byte(vfMix(sc.Seed^0x5a, uint64(i)) % 5); nd.shape {
					case 1, 4:
						w.uid, w.gid = 0, 0 // not reported, so the client must show none
					case 2:
						nd.ext = []StatExtended{{ExtType: fmt.Sprintf("t%d@x", i), ExtData: fmt.Sprintf("d%d", i)}}
						w.ext = nd.ext
					}
				}
				want[name] = w
			}
			v.fs.mu.Unlock()
			v.fs.listStyle = int(sc.cfg("liststyle", 0))
			if sc.cfg("names", 0) == 1 {
				v.fs.dotEntries = true
			}
		}
	default:
		v, err = c16StartInMem(r)
		dir = "/dd"
	}
	if v != nil {
		defer v.cleanup()
	}
	if err != nil || v == nil {
		r.fail("C16/handshake", "handshake", "handshake failed: %v", err)
		return
	}
	env := &vfClientEnv{sim: sim, prop: "C16", c: v.c, files: map[int]*File{}, tag: sc.Seed}
	var prog []vfOp
	if kind == 3 {
		sim.ticks = true
		prog = append(prog, vfOp{K: "mkdir", P: "/dd"})
		for i, name := range c16Names(n, 0, sc.Seed) {
			prog = append(prog, vfOp{K: "create", P: "/dd/" + name, H: i}, vfOp{K: "write", H: i, N: i % 9}, vfOp{K: "close", H: i})
			want[name] = entry{size: int64(i % 9), perm: 0o644, mtime: -1}
		}
	}
	prog = append(prog, vfOp{K: "readdir", P: dir})
	results := make([]*vfOpResult, len(prog))
	tk := vfSpawnTask(sim, 0, len(prog), func(i int) { results[i] = env.do(prog[i]) })
	sim.run(tk.finished)
	if sim.failed() {
		return
	}
	if !tk.finished() {
		r.fail("C16/listing-never-terminates", "liveness", "ReadDir of a directory with %d entries (batch %d, lister style %d) did not return within %d steps", n, sc.cfg("B", 0), sc.cfg("liststyle", 0), sim.steps)
		return
	}
	for i, res := range results[:len(results)-1] {
		if res.Err != nil {
			r.fail("C16/setup", "setup", "setup op %+v failed: %v", prog[i], res.Err)
			return
		}
	}
	res := results[len(results)-1]
	if res.Err != nil {
		r.fail("C16/listing-failed", "error", "ReadDir of %d entries failed: %v", n, res.Err)
		return
	}
	got := map[string]int{}
	for _, fi := range res.Infos {
		got[fi.Name()]++
	}
	var missing, dup, extra []string
	for name := range want {
		switch c := got[name]; {
		case c == 0:
			missing = append(missing, name)
		case c > 1:
			dup = append(dup, name)
		}
	}
	for name := range got {
		if _, ok := want[name]; !ok {
			extra = append(extra, name)
		}
	}
	sort.Strings(missing)
	sort.Strings(dup)
	sort.Strings(extra)
	cfgs := fmt.Sprintf("n=%d batch=%d style=%d", n, sc.cfg("B", 0), sc.cfg("liststyle", 0))
	if len(missing) > 0 {
		r.fail("C16/entry-lost", "lost", "%s: %d entries are missing from the listing: %.200q", cfgs, len(missing), missing)
		return
	}
	if len(dup) > 0 {
		r.fail("C16/entry-duplicated", "dup", "%s: %d entries were returned more than once: %.200q", cfgs, len(dup), dup)
		return
	}
	if len(extra) > 0 {
		r.fail("C16/extra-entry", "extra", "%s: entries that are not in the directory (or '.'/'..') were returned: %.200q", cfgs, extra)
		return
	}
	for _, fi := range res.Infos {
		w := want[fi.Name()]
		st, _ := fi.Sys().(*FileStat)
		extOK := true
		if w.ids {
			extOK = st != nil && len(st.Extended) == len(w.ext)
			for i := 0; extOK && i < len(w.ext); i++ {
				extOK = st.Extended[i] == w.ext[i]
			}
		}
		if fi.Size() != w.size || fi.Mode()&(os.ModePerm|os.ModeDir) != w.perm || (w.mtime >= 0 && fi.ModTime().Unix() != w.mtime) || (w.ids && (st == nil || st.UID != w.uid || st.GID != w.gid)) || !extOK {
			r.fail("C16/wrong-attributes", "attrs", "%s: entry %q came back with size=%d mode=%v mtime=%d uid=%v, the server reported size=%d mode=%v mtime=%d uid=%d", cfgs, fi.Name(), fi.Size(), fi.Mode(), fi.ModTime().Unix(), st, w.size, w.perm, w.mtime, w.uid)
			return
		}
	}
	if b := int(sc.cfg("B", 0)); b > 0 && n > b {
		sim.count("probe.listing_spans_batches")
		if n%b == 0 {
			sim.count("probe.batch_boundary_exact")
		}
	}
	if kind == 0 && n > 128 {
		sim.count("probe.listing_spans_batches")
	}
	r.res.NonTrivial = n > 0
}

// c16StartInMem: RequestServer on the package's own in-memory example backend.
func c16StartInMem(r *vfRun) (*vfFileSystem, error) {
	sc, sim := r.sc, r.sim
	v := &vfFileSystem{sim: sim, kind: 3}
	vfServerSites(sim, sc.cfg("ssites", 3))
	vfClientSites(sim, sc.cfg("csites", 7))
	srv := &vfServer{sim: sim, kind: 1}
	srv.c2s = sim.newPipe("c2s")
	srv.s2c = sim.newPipe("s2c")
	srv.end = &vfEnd{r: srv.c2s, w: srv.s2c, closeBoth: true}
	rs := NewRequestServer(srv.end, InMemHandler())
	srv.rs = rs
	go func() {
		err := rs.Serve()
		srv.mu.Lock()
		srv.done, srv.err = true, err
		srv.mu.Unlock()
		srv.end.Close()
	}()
	v.srv = srv
	c, err := vfStartClient(sim, srv.c2s, srv.s2c)
	v.c = c
	return v, err
}
