//go:build verif

package sftp

// Independent SFTP v3 codec used by the oracles, the wire-level client and the scripted
// server. Written from draft-ietf-secsh-filexfer-02 and OpenSSH's PROTOCOL file; it shares
// no code with packet.go or internal/encoding/ssh/filexfer.

import (
	"encoding/binary"
	"errors"
	"fmt"
)

const (
	wtInit     = 1
	wtVersion  = 2
	wtOpen     = 3
	wtClose    = 4
	wtRead     = 5
	wtWrite    = 6
	wtLstat    = 7
	wtFstat    = 8
	wtSetstat  = 9
	wtFsetstat = 10
	wtOpendir  = 11
	wtReaddir  = 12
	wtRemove   = 13
	wtMkdir    = 14
	wtRmdir    = 15
	wtRealpath = 16
	wtStat     = 17
	wtRename   = 18
	wtReadlink = 19
	wtSymlink  = 20
	wtStatus   = 101
	wtHandle   = 102
	wtData     = 103
	wtName     = 104
	wtAttrs    = 105
	wtExtended = 200
	wtExtReply = 201
)

const (
	wsOK          = 0
	wsEOF         = 1
	wsNoSuchFile  = 2
	wsPermDenied  = 3
	wsFailure     = 4
	wsBadMessage  = 5
	wsNoConn      = 6
	wsConnLost    = 7
	wsUnsupported = 8
)

const (
	wfRead   = 1
	wfWrite  = 2
	wfAppend = 4
	wfCreat  = 8
	wfTrunc  = 16
	wfExcl   = 32
)

const (
	waSize  = 1
	waUIDs  = 2
	waPerm  = 4
	waTimes = 8
	waExt   = 0x80000000
)

var wtNames = map[byte]string{1: "INIT", 2: "VERSION", 3: "OPEN", 4: "CLOSE", 5: "READ", 6: "WRITE", 7: "LSTAT", 8: "FSTAT",
	9: "SETSTAT", 10: "FSETSTAT", 11: "OPENDIR", 12: "READDIR", 13: "REMOVE", 14: "MKDIR", 15: "RMDIR", 16: "REALPATH",
	17: "STAT", 18: "RENAME", 19: "READLINK", 20: "SYMLINK", 101: "STATUS", 102: "HANDLE", 103: "DATA", 104: "NAME",
	105: "ATTRS", 200: "EXTENDED", 201: "EXTENDED_REPLY"}

func wtStr(t byte) string {
	if n, ok := wtNames[t]; ok {
		return n
	}
	return fmt.Sprintf("TYPE%d", t)
}

type wAttrs struct {
	Flags uint32      `json:"f,omitempty"`
	Size  uint64      `json:"sz,omitempty"`
	UID   uint32      `json:"u,omitempty"`
	GID   uint32      `json:"g,omitempty"`
	Perm  uint32      `json:"p,omitempty"`
	Atime uint32      `json:"at,omitempty"`
	Mtime uint32      `json:"mt,omitempty"`
	Ext   [][2]string `json:"x,omitempty"`
}

type wName struct {
	Name, Long string
	Attrs      wAttrs
}

// wReq is a request as the harness sees it.
type wReq struct {
	Type    byte
	ID      uint32
	Path    string // path / filename / oldpath / symlink: linkpath
	Path2   string // newpath / symlink: targetpath
	Handle  string
	Pflags  uint32
	Attrs   wAttrs
	Offset  uint64
	Len     uint32
	Data    []byte
	ExtName string
	ExtData []byte // raw extended payload for unknown extensions
	Version uint32
	Exts    [][2]string
}

// wResp is a response as the harness sees it.
type wResp struct {
	Type    byte
	ID      uint32
	Code    uint32
	Msg     string
	Lang    string
	Handle  string
	Data    []byte
	Names   []wName
	Attrs   wAttrs
	Version uint32
	Exts    [][2]string
	Raw     []byte // payload after the id for EXTENDED_REPLY
}

type wbuf struct{ b []byte }

func (w *wbuf) u8(v byte)    { w.b = append(w.b, v) }
func (w *wbuf) u32(v uint32) { w.b = binary.BigEndian.AppendUint32(w.b, v) }
func (w *wbuf) u64(v uint64) { w.b = binary.BigEndian.AppendUint64(w.b, v) }
func (w *wbuf) str(s string) { w.u32(uint32(len(s))); w.b = append(w.b, s...) }
func (w *wbuf) bytes(s []byte) {
	w.u32(uint32(len(s)))
	w.b = append(w.b, s...)
}
func (w *wbuf) attrs(a wAttrs) {
	w.u32(a.Flags)
	if a.Flags&waSize != 0 {
		w.u64(a.Size)
	}
	if a.Flags&waUIDs != 0 {
		w.u32(a.UID)
		w.u32(a.GID)
	}
	if a.Flags&waPerm != 0 {
		w.u32(a.Perm)
	}
	if a.Flags&waTimes != 0 {
		w.u32(a.Atime)
		w.u32(a.Mtime)
	}
	if a.Flags&waExt != 0 {
		w.u32(uint32(len(a.Ext)))
		for _, e := range a.Ext {
			w.str(e[0])
			w.str(e[1])
		}
	}
}

// frame prepends the length word.
func wFrame(body []byte) []byte {
	out := make([]byte, 4, 4+len(body))
	binary.BigEndian.PutUint32(out, uint32(len(body)))
	return append(out, body...)
}

func (r *wReq) encode() []byte {
	w := &wbuf{}
	w.u8(r.Type)
	if r.Type == wtInit {
		w.u32(r.Version)
		for _, e := range r.Exts {
			w.str(e[0])
			w.str(e[1])
		}
		return wFrame(w.b)
	}
	w.u32(r.ID)
	switch r.Type {
	case wtOpen:
		w.str(r.Path)
		w.u32(r.Pflags)
		w.attrs(r.Attrs)
	case wtClose, wtFstat, wtReaddir:
		w.str(r.Handle)
	case wtRead:
		w.str(r.Handle)
		w.u64(r.Offset)
		w.u32(r.Len)
	case wtWrite:
		w.str(r.Handle)
		w.u64(r.Offset)
		w.bytes(r.Data)
	case wtLstat, wtStat, wtOpendir, wtRemove, wtRmdir, wtRealpath, wtReadlink:
		w.str(r.Path)
	case wtSetstat:
		w.str(r.Path)
		w.attrs(r.Attrs)
	case wtFsetstat:
		w.str(r.Handle)
		w.attrs(r.Attrs)
	case wtMkdir:
		w.str(r.Path)
		w.attrs(r.Attrs)
	case wtRename:
		w.str(r.Path)
		w.str(r.Path2)
	case wtSymlink:
		// draft: linkpath, targetpath; OpenSSH (and this package) send targetpath first.
		w.str(r.Path2)
		w.str(r.Path)
	case wtExtended:
		w.str(r.ExtName)
		switch r.ExtName {
		case "statvfs@openssh.com":
			w.str(r.Path)
		case "posix-rename@openssh.com", "hardlink@openssh.com":
			w.str(r.Path)
			w.str(r.Path2)
		case "fsync@openssh.com":
			w.str(r.Handle)
		default:
			w.b = append(w.b, r.ExtData...)
		}
	default:
		w.b = append(w.b, r.ExtData...)
	}
	return wFrame(w.b)
}

var errWShort = errors.New("wire: short packet")

type rbuf struct {
	b   []byte
	err error
}

func (r *rbuf) u8() byte {
	if r.err != nil || len(r.b) < 1 {
		r.err = errWShort
		return 0
	}
	v := r.b[0]
	r.b = r.b[1:]
	return v
}
func (r *rbuf) u32() uint32 {
	if r.err != nil || len(r.b) < 4 {
		r.err = errWShort
		return 0
	}
	v := binary.BigEndian.Uint32(r.b)
	r.b = r.b[4:]
	return v
}
func (r *rbuf) u64() uint64 {
	if r.err != nil || len(r.b) < 8 {
		r.err = errWShort
		return 0
	}
	v := binary.BigEndian.Uint64(r.b)
	r.b = r.b[8:]
	return v
}
func (r *rbuf) bytes() []byte {
	n := r.u32()
	if r.err != nil || uint64(n) > uint64(len(r.b)) {
		r.err = errWShort
		return nil
	}
	v := r.b[:n]
	r.b = r.b[n:]
	return v
}
func (r *rbuf) str() string { return string(r.bytes()) }
func (r *rbuf) attrs() wAttrs {
	var a wAttrs
	a.Flags = r.u32()
	if a.Flags&waSize != 0 {
		a.Size = r.u64()
	}
	if a.Flags&waUIDs != 0 {
		a.UID = r.u32()
		a.GID = r.u32()
	}
	if a.Flags&waPerm != 0 {
		a.Perm = r.u32()
	}
	if a.Flags&waTimes != 0 {
		a.Atime = r.u32()
		a.Mtime = r.u32()
	}
	if a.Flags&waExt != 0 {
		n := r.u32()
		for i := uint32(0); i < n && r.err == nil; i++ {
			k := r.str()
			v := r.str()
			a.Ext = append(a.Ext, [2]string{k, v})
		}
	}
	return a
}

// wParseReq decodes the body of a frame (type byte first) as a request.
func wParseReq(body []byte) (*wReq, error) {
	r := &rbuf{b: body}
	q := &wReq{Type: r.u8()}
	if q.Type == wtInit {
		q.Version = r.u32()
		for r.err == nil && len(r.b) > 0 {
			k := r.str()
			v := r.str()
			q.Exts = append(q.Exts, [2]string{k, v})
		}
		return q, r.err
	}
	q.ID = r.u32()
	switch q.Type {
	case wtOpen:
		q.Path = r.str()
		q.Pflags = r.u32()
		q.Attrs = r.attrs()
	case wtClose, wtFstat, wtReaddir:
		q.Handle = r.str()
	case wtRead:
		q.Handle = r.str()
		q.Offset = r.u64()
		q.Len = r.u32()
	case wtWrite:
		q.Handle = r.str()
		q.Offset = r.u64()
		q.Data = append([]byte(nil), r.bytes()...)
	case wtLstat, wtStat, wtOpendir, wtRemove, wtRmdir, wtRealpath, wtReadlink:
		q.Path = r.str()
	case wtSetstat, wtMkdir:
		q.Path = r.str()
		q.Attrs = r.attrs()
	case wtFsetstat:
		q.Handle = r.str()
		q.Attrs = r.attrs()
	case wtRename:
		q.Path = r.str()
		q.Path2 = r.str()
	case wtSymlink:
		q.Path2 = r.str()
		q.Path = r.str()
	case wtExtended:
		q.ExtName = r.str()
		switch q.ExtName {
		case "statvfs@openssh.com":
			q.Path = r.str()
		case "posix-rename@openssh.com", "hardlink@openssh.com":
			q.Path = r.str()
			q.Path2 = r.str()
		case "fsync@openssh.com":
			q.Handle = r.str()
		default:
			q.ExtData = append([]byte(nil), r.b...)
		}
	default:
		return q, fmt.Errorf("wire: unknown request type %d", q.Type)
	}
	return q, r.err
}

func (p *wResp) encode() []byte {
	w := &wbuf{}
	w.u8(p.Type)
	if p.Type == wtVersion {
		w.u32(p.Version)
		for _, e := range p.Exts {
			w.str(e[0])
			w.str(e[1])
		}
		return wFrame(w.b)
	}
	w.u32(p.ID)
	switch p.Type {
	case wtStatus:
		w.u32(p.Code)
		w.str(p.Msg)
		w.str(p.Lang)
	case wtHandle:
		w.str(p.Handle)
	case wtData:
		w.bytes(p.Data)
	case wtName:
		w.u32(uint32(len(p.Names)))
		for _, n := range p.Names {
			w.str(n.Name)
			w.str(n.Long)
			w.attrs(n.Attrs)
		}
	case wtAttrs:
		w.attrs(p.Attrs)
	default:
		w.b = append(w.b, p.Raw...)
	}
	return wFrame(w.b)
}

// wParseResp decodes the body of a frame as a response; strict: trailing bytes are an error.
func wParseResp(body []byte) (*wResp, error) {
	r := &rbuf{b: body}
	p := &wResp{Type: r.u8()}
	if p.Type == wtVersion {
		p.Version = r.u32()
		for r.err == nil && len(r.b) > 0 {
			k := r.str()
			v := r.str()
			p.Exts = append(p.Exts, [2]string{k, v})
		}
		return p, r.err
	}
	p.ID = r.u32()
	switch p.Type {
	case wtStatus:
		p.Code = r.u32()
		p.Msg = r.str()
		p.Lang = r.str()
	case wtHandle:
		p.Handle = r.str()
	case wtData:
		p.Data = append([]byte(nil), r.bytes()...)
	case wtName:
		n := r.u32()
		for i := uint32(0); i < n && r.err == nil; i++ {
			var e wName
			e.Name = r.str()
			e.Long = r.str()
			e.Attrs = r.attrs()
			p.Names = append(p.Names, e)
		}
	case wtAttrs:
		p.Attrs = r.attrs()
	case wtExtReply:
		p.Raw = append([]byte(nil), r.b...)
		r.b = nil
	default:
		return p, fmt.Errorf("wire: unknown response type %d", p.Type)
	}
	if r.err == nil && len(r.b) != 0 {
		return p, fmt.Errorf("wire: %d trailing bytes in %s", len(r.b), wtStr(p.Type))
	}
	return p, r.err
}

// wFramer cuts a byte stream into frames.
type wFramer struct {
	buf    []byte
	bad    error
	frames int
	max    uint32 // largest frame accepted (0: what the package itself accepts, plus slack)
}

// feed returns the complete frame bodies (type byte first) contained in the stream so far.
func (f *wFramer) feed(b []byte) [][]byte {
	f.buf = append(f.buf, b...)
	var out [][]byte
	for f.bad == nil && len(f.buf) >= 4 {
		n := binary.BigEndian.Uint32(f.buf)
		lim := uint32(256*1024 + 1024)
		if f.max > 0 {
			lim = f.max
		}
		if n == 0 || n > lim {
			f.bad = fmt.Errorf("wire: frame %d has length %d", f.frames, n)
			break
		}
		if uint32(len(f.buf)-4) < n {
			break
		}
		out = append(out, append([]byte(nil), f.buf[4:4+n]...))
		f.buf = f.buf[4+n:]
		f.frames++
	}
	return out
}

// legal response types per request type (draft section 7).
func wLegalReply(reqType byte, respType byte) bool {
	switch reqType {
	case wtInit:
		return respType == wtVersion
	case wtOpen, wtOpendir:
		return respType == wtHandle || respType == wtStatus
	case wtRead:
		return respType == wtData || respType == wtStatus
	case wtReaddir, wtReadlink, wtRealpath:
		return respType == wtName || respType == wtStatus
	case wtLstat, wtFstat, wtStat:
		return respType == wtAttrs || respType == wtStatus
	case wtExtended:
		return respType == wtExtReply || respType == wtStatus
	default:
		return respType == wtStatus
	}
}

func (r *wReq) String() string {
	s := fmt.Sprintf("%s#%d", wtStr(r.Type), r.ID)
	switch r.Type {
	case wtOpen:
		s += fmt.Sprintf(" %q pf=%#x af=%#x", r.Path, r.Pflags, r.Attrs.Flags)
	case wtRead:
		s += fmt.Sprintf(" h=%q off=%d len=%d", r.Handle, r.Offset, r.Len)
	case wtWrite:
		s += fmt.Sprintf(" h=%q off=%d len=%d", r.Handle, r.Offset, len(r.Data))
	case wtClose, wtFstat, wtReaddir, wtFsetstat:
		s += fmt.Sprintf(" h=%q", r.Handle)
	case wtExtended:
		s += fmt.Sprintf(" %s %q %q", r.ExtName, r.Path, r.Path2)
	case wtInit:
		s = fmt.Sprintf("INIT v%d", r.Version)
	default:
		s += fmt.Sprintf(" %q", r.Path)
		if r.Path2 != "" {
			s += fmt.Sprintf(" %q", r.Path2)
		}
	}
	return s
}

func (p *wResp) String() string {
	switch p.Type {
	case wtStatus:
		return fmt.Sprintf("STATUS#%d code=%d %q", p.ID, p.Code, p.Msg)
	case wtHandle:
		return fmt.Sprintf("HANDLE#%d %q", p.ID, p.Handle)
	case wtData:
		return fmt.Sprintf("DATA#%d len=%d", p.ID, len(p.Data))
	case wtName:
		return fmt.Sprintf("NAME#%d n=%d", p.ID, len(p.Names))
	case wtAttrs:
		return fmt.Sprintf("ATTRS#%d f=%#x size=%d perm=%#o", p.ID, p.Attrs.Flags, p.Attrs.Size, p.Attrs.Perm)
	case wtVersion:
		return fmt.Sprintf("VERSION %d %v", p.Version, p.Exts)
	}
	return fmt.Sprintf("%s#%d", wtStr(p.Type), p.ID)
}
