//go:build verif

package sftp

// Simulated transport: two independent byte queues. Reads park until the scheduler
// grants bytes; writes never park (they run with package locks held).

import (
	"errors"
	"fmt"
	"io"
)

var vfErrDrained = errors.New("vf: simulation drained")
var vfErrLinkReset = errors.New("vf: connection reset by simulated peer")
var vfErrWriteFault = errors.New("vf: simulated write failure")

type vfPipe struct {
	sim  *vfSim
	name string // "c2s" or "s2c"

	buf     []byte // every byte accepted so far
	rdOff   int    // bytes handed to the reader so far
	granted int    // bytes the scheduler has granted and the reader has not consumed
	waiter  *vfWaiter
	want    int // len(p) of the parked Read

	wclosed  bool  // writer end closed: EOF after the queue drains
	cutAt    int   // -1: none; the reader gets cutErr after exactly cutAt bytes
	cutErr   error // io.EOF = clean close
	termErr  error // sticky: what the reader now gets
	raborted bool  // reader side closed locally (Close of the owning end)

	writes     int   // Write calls so far
	wrFaultAt  int   // ordinal (0-based) of the Write that fails; -1 none
	wrShort    int   // bytes accepted by the failing write
	softClose  bool  // after Close the writer goes on accepting (and discarding) bytes: Close ends the stream for the peer, but says nothing to later writers
	wrPartial  bool  // the failing write never accepts its whole buffer (so the peer never sees that packet complete)
	wrErr      error // what the failing write (and every later one) returns; nil: vfErrWriteFault
	wrDead     error // sticky write error afterwards
	wrFaultSeq int   // scheduler seq at which the write fault fired (0: not yet)
	termSeq    int   // scheduler seq at which the reader got its terminal error
	closes     int   // Close calls on the writer end

	tap         func(p []byte) // sees every accepted byte, synchronously
	onDeliver   func(n int)    // after n bytes were granted
	maxChunk    int            // 0: any; else cap of one delivery
	noFrag      bool           // deliver everything the reader asks for
	parkWrites  bool           // every Write parks first (only where no other goroutine can want the writer's lock)
	errWithData bool           // the Read that hands out the last bytes before the end also returns the error (io.Reader allows it)
	stallAt     int            // ordinal of the Write that stalls (back-pressure) until the scheduler releases it; -1 none
	stallLen    int            // how many consecutive writes stall
}

func (s *vfSim) newPipe(name string) *vfPipe {
	p := &vfPipe{sim: s, name: name, cutAt: -1, wrFaultAt: -1, stallAt: -1}
	s.pipes = append(s.pipes, p)
	s.addSource(p.events)
	return p
}

func (p *vfPipe) limit() int {
	n := len(p.buf)
	if p.cutAt >= 0 && p.cutAt < n {
		n = p.cutAt
	}
	return n
}

func (p *vfPipe) events(add func(key string, fire func())) {
	s := p.sim
	s.mu.Lock()
	defer s.mu.Unlock()
	if p.waiter == nil || p.termErr != nil || p.granted > 0 {
		return
	}
	avail := p.limit() - p.rdOff
	if avail > 0 {
		add("n:"+p.name+":deliver", func() { p.deliver() })
		return
	}
	if p.cutAt >= 0 && p.rdOff >= p.cutAt {
		add("n:"+p.name+":cut", func() { p.terminate(p.cutErr, "cut") })
		return
	}
	if p.wclosed {
		add("n:"+p.name+":eof", func() { p.terminate(io.EOF, "eof") })
	}
}

func (p *vfPipe) deliver() {
	s := p.sim
	s.mu.Lock()
	avail := p.limit() - p.rdOff
	max := avail
	if p.want < max {
		max = p.want
	}
	if p.maxChunk > 0 && p.maxChunk < max {
		max = p.maxChunk
	}
	s.mu.Unlock()
	k := max
	if !p.noFrag && max > 1 {
		// bias: half of the time everything that is wanted, else a fragment
		if s.tape.next(2) == 1 {
			k = 1 + s.tape.next(max)
			if k < max {
				s.count("fault.frag")
			}
		}
	}
	s.mu.Lock()
	p.granted = k
	w := p.waiter
	p.waiter = nil
	s.mu.Unlock()
	s.tracef("%s: %d bytes granted (offset %d)", p.name, k, p.rdOff)
	if p.onDeliver != nil {
		p.onDeliver(k)
	}
	if w != nil {
		close(w.ch)
	}
}

func (p *vfPipe) terminate(err error, why string) {
	s := p.sim
	s.mu.Lock()
	p.termErr = err
	p.termSeq = s.seq
	w := p.waiter
	p.waiter = nil
	s.stats["fault."+p.name+"."+why]++
	s.mu.Unlock()
	s.tracef("%s: reader gets %v", p.name, err)
	if w != nil {
		close(w.ch)
	}
}

// abortReader is what a local Close of the owning end does to a pending Read.
func (p *vfPipe) abortReader() {
	s := p.sim
	s.mu.Lock()
	p.raborted = true
	if p.termErr == nil {
		p.termErr = io.ErrClosedPipe
	}
	w := p.waiter
	p.waiter = nil
	s.mu.Unlock()
	if w != nil {
		close(w.ch)
	}
}

func (p *vfPipe) abort() {
	s := p.sim
	s.mu.Lock()
	if p.termErr == nil {
		p.termErr = vfErrDrained
	}
	if p.wrDead == nil {
		p.wrDead = vfErrDrained
	}
	w := p.waiter
	p.waiter = nil
	s.mu.Unlock()
	if w != nil {
		close(w.ch)
	}
}

func (p *vfPipe) Read(b []byte) (int, error) {
	s := p.sim
	for {
		s.mu.Lock()
		if p.granted > 0 && len(b) > 0 {
			n := p.granted
			if len(b) < n {
				n = len(b)
			}
			copy(b, p.buf[p.rdOff:p.rdOff+n])
			p.rdOff += n
			p.granted -= n
			if p.errWithData && p.granted == 0 && p.termErr == nil {
				// the last bytes and the end of the stream in one Read call
				var err error
				if p.cutAt >= 0 && p.rdOff >= p.cutAt {
					err = p.cutErr
				} else if p.wclosed && p.rdOff == len(p.buf) {
					err = io.EOF
				}
				if err != nil {
					p.termErr = err
					p.termSeq = s.seq
					s.stats["fault."+p.name+".err-with-data"]++
					s.mu.Unlock()
					return n, err
				}
			}
			s.mu.Unlock()
			return n, nil
		}
		if p.termErr != nil {
			err := p.termErr
			s.mu.Unlock()
			return 0, err
		}
		if len(b) == 0 {
			s.mu.Unlock()
			return 0, nil
		}
		if s.draining {
			s.mu.Unlock()
			return 0, vfErrDrained
		}
		w := &vfWaiter{key: "n:" + p.name, ch: make(chan struct{})}
		p.waiter = w
		p.want = len(b)
		s.mu.Unlock()
		<-w.ch
	}
}

func (p *vfPipe) Write(b []byte) (int, error) {
	s := p.sim
	if p.parkWrites {
		s.park("n:"+p.name+":write", nil)
	}
	s.mu.Lock()
	stall := p.stallAt >= 0 && p.writes >= p.stallAt && p.writes < p.stallAt+p.stallLen
	s.mu.Unlock()
	if stall {
		// a peer that is slow to read: the writer (holding its connection's write lock) waits
		s.count("fault." + p.name + ".stall")
		s.park("n:"+p.name+":stalled-write", nil)
	}
	s.mu.Lock()
	ord := p.writes
	p.writes++
	if p.wrDead != nil {
		err := p.wrDead
		s.mu.Unlock()
		return 0, err
	}
	if p.wclosed {
		s.mu.Unlock()
		if p.softClose {
			s.count("fault." + p.name + ".write-after-close-accepted")
			return len(b), nil
		}
		return 0, io.ErrClosedPipe
	}
	if ord == p.wrFaultAt {
		k := p.wrShort
		if k > len(b) {
			k = len(b)
		}
		if p.wrPartial && k >= len(b) && k > 0 {
			k = len(b) - 1
		}
		p.buf = append(p.buf, b[:k]...)
		werr := p.wrErr
		if werr == nil {
			werr = vfErrWriteFault
		}
		p.wrDead = werr
		p.wrFaultSeq = s.seq
		s.stats["fault."+p.name+".wrerr"]++
		if k > 0 {
			s.stats["fault."+p.name+".shortwr"]++
		}
		tap := p.tap
		s.mu.Unlock()
		if tap != nil && k > 0 {
			tap(b[:k])
		}
		return k, werr
	}
	p.buf = append(p.buf, b...)
	tap := p.tap
	s.mu.Unlock()
	if tap != nil {
		tap(b)
	}
	return len(b), nil
}

func (p *vfPipe) closeWriter() {
	s := p.sim
	s.mu.Lock()
	p.closes++
	p.wclosed = true
	s.mu.Unlock()
}

func (p *vfPipe) String() string {
	return fmt.Sprintf("%s{len=%d rd=%d closed=%v cut=%d term=%v}", p.name, len(p.buf), p.rdOff, p.wclosed, p.cutAt, p.termErr)
}

// vfEnd is one end of a link: it reads from one pipe and writes to the other.
type vfEnd struct {
	r, w      *vfPipe
	closeBoth bool // Close also aborts the local reader (a net.Conn-like end, used for servers)
	closed    int
}

func (e *vfEnd) Read(b []byte) (int, error)  { return e.r.Read(b) }
func (e *vfEnd) Write(b []byte) (int, error) { return e.w.Write(b) }
func (e *vfEnd) Close() error {
	e.closed++
	e.w.closeWriter()
	if e.closeBoth {
		e.r.abortReader()
	}
	return nil
}

// vfWriteCloser adapts a pipe's writer end (the client's io.WriteCloser).
type vfWriteCloser struct{ p *vfPipe }

func (w vfWriteCloser) Write(b []byte) (int, error) { return w.p.Write(b) }
func (w vfWriteCloser) Close() error                { w.p.closeWriter(); return nil }
