//go:build verif

package sftp

// C17 — file attributes and modes survive every conversion.

import (
	"fmt"
	"net"
	"os"
	"os/user"
	"sort"
	"strconv"
	"strings"
	"syscall"
	"time"
)

func init() {
	vfRegister(&vfProp{
		id:        "C17",
		classes:   []string{"kinds", "setstat", "setstat", "kinds"},
		gen:       c17Gen,
		exec:      c17Exec,
		enumerate: c17Enumerate,
		maxSteps:  400000,
	})
}

func c17Gen(class string, seed uint64, tier string) *vfScenario {
	rng := vfRng(seed, 1)
	sc := &vfScenario{Cfg: map[string]int64{"kind": 0}}
	sc.Cfg["alloc"] = int64(rng.IntN(2))
	sc.Cfg["ssites"] = int64(1 + rng.IntN(3))
	sc.Cfg["csites"] = int64(rng.IntN(4))
	switch class {
	case "kinds":
		// mtimes around the six-month boundary of the (fake) clock, and a clock jump in between
		sc.Cfg["mtoff"] = int64(rng.IntN(400) - 200) // days relative to now-6 months
		sc.Cfg["jump"] = int64(rng.IntN(30))         // days the clock jumps before the second listing
		sc.Cfg["perm"] = int64(rng.IntN(0o10000))
		if rng.IntN(4) == 0 {
			// modification times around and beyond 2^31 seconds (the wire field is an unsigned 32-bit count)
			sc.Cfg["mtabs"] = []int64{1<<31 - 1, 1 << 31, 1<<31 + int64(rng.IntN(1<<30)), 1<<32 - 1}[rng.IntN(4)]
		}
	case "setstat":
		if rng.IntN(3) == 0 {
			sc.Cfg["late"] = 1 // times set by the requests straddle 2^31 seconds
		}
		n := 1 + rng.IntN(6)
		for i := 0; i < n; i++ {
			fl := int64(rng.IntN(16))
			op := vfOp{K: []string{"setstat", "fsetstat"}[rng.IntN(2)], P: []string{"reg", "dir", "lnk"}[rng.IntN(3)], B: fl,
				Off: int64(rng.IntN(100)), N: rng.IntN(0o10000), A: int64(rng.IntN(60000))<<16 | int64(rng.IntN(60000))}
			if op.K == "fsetstat" && op.P == "reg" && rng.IntN(3) == 0 {
				// between open and FSETSTAT somebody renames the file and puts another one under its name: the request
				// is about the open file
				op.S = "moved"
			}
			sc.Ops = append(sc.Ops, op)
		}
	}
	return sc
}

func c17Enumerate(tier string, base uint64, emit func(*vfScenario)) {
	// the pure conversion table (side check, not simulation) once, then Chmod over all 4096 values in 8 slices
	emit(&vfScenario{Prop: "C17", Class: "table", Seed: vfMix(base, 0xc17), Cfg: map[string]int64{}})
	for part := 0; part < 8; part++ {
		emit(&vfScenario{Prop: "C17", Class: "chmod", Seed: vfMix(vfMix(base, 0xc17), uint64(part)), Cfg: map[string]int64{"kind": 0, "part": int64(part), "ssites": 3, "csites": 0}})
	}
	// the client's own set-attribute entry points over ladders of boundary values
	emit(&vfScenario{Prop: "C17", Class: "clientapi", Seed: vfMix(base, 0xc17c), Cfg: map[string]int64{"kind": 0, "ssites": 3, "csites": 0}})
	emit(&vfScenario{Prop: "C17", Class: "clientapi", Seed: vfMix(base, 0xc17d), Cfg: map[string]int64{"kind": 0, "ssites": 1, "csites": 0, "alloc": 1, "fstat": 1}})
	// every attribute flag subset for SETSTAT and FSETSTAT on each target
	n := 0
	for fl := 0; fl < 16; fl++ {
		for _, k := range []string{"setstat", "fsetstat"} {
			for _, p := range []string{"reg", "dir", "lnk"} {
				n++
				emit(&vfScenario{Prop: "C17", Class: "setstat", Seed: vfMix(vfMix(base, 0xc17a), uint64(n)), Cfg: map[string]int64{"kind": 0, "ssites": 3},
					Ops: []vfOp{{K: k, P: p, B: int64(fl), Off: int64(7 + n%50), N: (n * 37) % 0o10000, A: int64(1000+n)<<16 | int64(2000+n)}}})
			}
		}
	}
}

// ---- independent tables (POSIX mode word <-> os.FileMode), written from the draft and stat(2)

var c17Types = []struct {
	wire uint32
	mode os.FileMode
	ch   byte
}{
	{0o140000, os.ModeSocket, 's'}, {0o120000, os.ModeSymlink, 'l'}, {0o100000, 0, '-'}, {0o060000, os.ModeDevice, 'b'},
	{0o040000, os.ModeDir, 'd'}, {0o020000, os.ModeDevice | os.ModeCharDevice, 'c'}, {0o010000, os.ModeNamedPipe, 'p'},
}

func c17WireToMode(w uint32) (os.FileMode, bool) {
	m := os.FileMode(w & 0o777)
	found := false
	for _, t := range c17Types {
		if w&0o170000 == t.wire {
			m |= t.mode
			found = true
		}
	}
	if w&0o4000 != 0 {
		m |= os.ModeSetuid
	}
	if w&0o2000 != 0 {
		m |= os.ModeSetgid
	}
	if w&0o1000 != 0 {
		m |= os.ModeSticky
	}
	return m, found
}

func c17PermString(w uint32) string {
	b := []byte("?---------")
	for _, t := range c17Types {
		if w&0o170000 == t.wire {
			b[0] = t.ch
		}
	}
	const rwx = "rwxrwxrwx"
	for i := 0; i < 9; i++ {
		if w&(1<<uint(8-i)) != 0 {
			b[1+i] = rwx[i]
		}
	}
	sp := func(pos int, bit uint32, on, off byte) {
		if w&bit != 0 {
			if b[pos] == 'x' {
				b[pos] = on
			} else {
				b[pos] = off
			}
		}
	}
	sp(3, 0o4000, 's', 'S')
	sp(6, 0o2000, 's', 'S')
	sp(9, 0o1000, 't', 'T')
	return string(b)
}

func c17Table(r *vfRun) {
	n := 0
	for w := uint32(0); w < 1<<16; w++ {
		want, valid := c17WireToMode(w)
		got := toFileMode(w)
		if valid && got != want {
			r.fail("C17/mode-conversion", "toFileMode", "toFileMode(%#o) = %v, want %v", w, got, want)
			return
		}
		if valid {
			if back := fromFileMode(got); back != w {
				r.fail("C17/mode-conversion", "roundtrip-wire", "fromFileMode(toFileMode(%#o)) = %#o", w, back)
				return
			}
			if isRegular(w) != (w&0o170000 == 0o100000) {
				r.fail("C17/mode-conversion", "isRegular", "isRegular(%#o) = %v", w, isRegular(w))
				return
			}
		}
		n++
	}
	for _, t := range c17Types {
		for perm := os.FileMode(0); perm < 0o1000; perm++ {
			for sp := 0; sp < 8; sp++ {
				m := t.mode | perm
				wantWire := t.wire | uint32(perm)
				wantChmod := uint32(perm)
				if sp&1 != 0 {
					m |= os.ModeSetuid
					wantWire |= 0o4000
					wantChmod |= 0o4000
				}
				if sp&2 != 0 {
					m |= os.ModeSetgid
					wantWire |= 0o2000
					wantChmod |= 0o2000
				}
				if sp&4 != 0 {
					m |= os.ModeSticky
					wantWire |= 0o1000
					wantChmod |= 0o1000
				}
				if got := fromFileMode(m); got != wantWire {
					r.fail("C17/mode-conversion", "fromFileMode", "fromFileMode(%v) = %#o, want %#o", m, got, wantWire)
					return
				}
				if back := toFileMode(fromFileMode(m)); back != m {
					r.fail("C17/mode-conversion", "roundtrip-os", "toFileMode(fromFileMode(%v)) = %v", m, back)
					return
				}
				if got := toChmodPerm(m); got != wantChmod {
					r.fail("C17/mode-conversion", "toChmodPerm", "toChmodPerm(%v) = %#o, want %#o", m, got, wantChmod)
					return
				}
				n++
			}
		}
	}
	r.sim.countN("probe.pure_conversion_cases", n)
	r.res.NonTrivial = true
}

func c17Exec(r *vfRun) {
	switch r.sc.Class {
	case "table":
		c17Table(r)
	case "chmod":
		c17Chmod(r)
	case "clientapi":
		c17ClientAPI(r)
	case "setstat":
		c17Setstat(r)
	default:
		c17Kinds(r)
	}
}

type c17Node struct {
	name string
	made bool
}

// c17MakeKinds creates one file of every kind the host lets us create.
func c17MakeKinds(root string, perm os.FileMode, mt time.Time) []string {
	var made []string
	add := func(name string, err error) {
		if err == nil {
			made = append(made, name)
		}
	}
	add("reg", os.WriteFile(root+"/reg", []byte("hello world"), 0o644))
	add("dir", os.Mkdir(root+"/dir", 0o755))
	add("lnk", os.Symlink("reg", root+"/lnk"))
	add("dangling", os.Symlink("nowhere", root+"/dangling"))
	add("fifo", syscall.Mkfifo(root+"/fifo", 0o640))
	if l, err := net.Listen("unix", root+"/sock"); err == nil {
		if ul, ok := l.(*net.UnixListener); ok {
			ul.SetUnlinkOnClose(false)
		}
		l.Close()
		made = append(made, "sock")
	}
	add("chr", syscall.Mknod(root+"/chr", syscall.S_IFCHR|0o600, 1<<8|3))
	add("blk", syscall.Mknod(root+"/blk", syscall.S_IFBLK|0o600, 7<<8|0))
	add("special", os.WriteFile(root+"/special", nil, 0o600))
	os.Chmod(root+"/special", perm&0o777|c17Special(uint32(perm)))
	for _, n := range made {
		if n != "lnk" && n != "dangling" {
			os.Chtimes(root+"/"+n, mt, mt)
		}
	}
	os.Chown(root+"/reg", 1234, 4321)
	// owners whose number names a different principal as a user and as a group (on this host e.g. 4 = sync / adm,
	// 65534 = nobody / nogroup): the owner and group columns of a long name are looked up separately
	if ids := c17CrossIDs(); len(ids) >= 2 {
		os.Chown(root+"/dir", ids[0], ids[1])
		os.Chown(root+"/fifo", ids[1], ids[0])
	} else if len(ids) == 1 {
		os.Chown(root+"/dir", ids[0], 0)
		os.Chown(root+"/fifo", 0, ids[0])
	}
	return made
}

var c17CrossIDsOnce []int
var c17CrossIDsDone bool

// c17CrossIDs: up to two numbers that resolve both as a user id and as a group id, to different names.
func c17CrossIDs() []int {
	if c17CrossIDsDone {
		return c17CrossIDsOnce
	}
	c17CrossIDsDone = true
	for _, id := range []int{4, 5, 6, 65534, 42, 100, 12, 13} {
		u, e1 := user.LookupId(strconv.Itoa(id))
		g, e2 := user.LookupGroupId(strconv.Itoa(id))
		if e1 == nil && e2 == nil && u.Username != g.Name && len(c17CrossIDsOnce) < 2 {
			c17CrossIDsOnce = append(c17CrossIDsOnce, id)
		}
	}
	return c17CrossIDsOnce
}

func c17Special(w uint32) os.FileMode {
	var m os.FileMode
	if w&0o4000 != 0 {
		m |= os.ModeSetuid
	}
	if w&0o2000 != 0 {
		m |= os.ModeSetgid
	}
	if w&0o1000 != 0 {
		m |= os.ModeSticky
	}
	return m
}

func c17Describe(fi os.FileInfo, uid, gid uint32) string {
	size := fi.Size()
	if !fi.Mode().IsRegular() {
		size = 0
	}
	return fmt.Sprintf("%v size=%d mtime=%d uid=%d gid=%d", fi.Mode(), size, fi.ModTime().Unix(), uid, gid)
}

func c17OsDescribe(fi os.FileInfo) string {
	st := fi.Sys().(*syscall.Stat_t)
	return c17Describe(fi, st.Uid, st.Gid)
}

func c17ClientDescribe(fi os.FileInfo) string {
	st, _ := fi.Sys().(*FileStat)
	if st == nil {
		return "no FileStat"
	}
	return c17Describe(fi, st.UID, st.GID)
}

func c17Kinds(r *vfRun) {
	sc, sim := r.sc, r.sim
	v, err := vfStartFileSystem(r, nil)
	defer v.cleanup()
	if err != nil {
		r.fail("C17/handshake", "handshake", "handshake failed: %v", err)
		return
	}
	os.Remove(v.root + "/f")
	now := time.Now() // the bubble's fake clock
	mt := now.AddDate(0, -6, 0).Add(time.Duration(sc.cfg("mtoff", 0)) * 24 * time.Hour)
	if abs := sc.cfg("mtabs", 0); abs > 0 {
		mt = time.Unix(abs, 0)
	}
	kinds := c17MakeKinds(v.root, os.FileMode(sc.cfg("perm", 0o644)), mt)
	c := v.c
	var mismatch, msig string
	tk := vfSpawnTask(sim, 0, 1, func(int) {
		for _, n := range kinds {
			want, _ := os.Lstat(v.root + "/" + n)
			got, err := c.Lstat(n)
			if err != nil || c17ClientDescribe(got) != c17OsDescribe(want) {
				mismatch, msig = fmt.Sprintf("Lstat(%s): client says %v (err %v), the file system says %s", n, c17ClientDescribe0(got), err, c17OsDescribe(want)), "lstat:"+n
				return
			}
			if wantS, e := os.Stat(v.root + "/" + n); e == nil {
				gotS, err := c.Stat(n)
				if err != nil || c17ClientDescribe(gotS) != c17OsDescribe(wantS) {
					mismatch, msig = fmt.Sprintf("Stat(%s): client says %v (err %v), the file system says %s", n, c17ClientDescribe0(gotS), err, c17OsDescribe(wantS)), "stat:"+n
					return
				}
			}
		}
		list, err := c.ReadDir(".")
		if err != nil || len(list) != len(kinds) {
			mismatch, msig = fmt.Sprintf("ReadDir: %d entries (err %v), want %d", len(list), err, len(kinds)), "readdir"
			return
		}
		for _, fi := range list {
			want, _ := os.Lstat(v.root + "/" + fi.Name())
			if c17ClientDescribe(fi) != c17OsDescribe(want) {
				mismatch, msig = fmt.Sprintf("ReadDir entry %s: client says %s, the file system says %s", fi.Name(), c17ClientDescribe(fi), c17OsDescribe(want)), "readdir:"+fi.Name()
				return
			}
		}
	})
	sim.run(tk.finished)
	if sim.failed() {
		return
	}
	if !tk.finished() {
		r.fail("C17/call-never-returned", "liveness", "attribute queries did not finish")
		return
	}
	if mismatch != "" {
		r.fail("C17/reported-attributes", msig, "%s", mismatch)
		return
	}
	// long names: raw READDIR through a second, wire-level session on the same tree, twice with a clock jump
	for round := 0; round < 2; round++ {
		if round == 1 {
			time.Sleep(time.Duration(sc.cfg("jump", 0)) * 24 * time.Hour)
			sim.count("fault.clock.jump")
		}
		if !c17LongNames(r, v.root, kinds) {
			return
		}
	}
	r.res.NonTrivial = true
}

func c17ClientDescribe0(fi os.FileInfo) string {
	if fi == nil {
		return "<nil>"
	}
	return c17ClientDescribe(fi)
}

// c17LongNames lists the tree at wire level and re-parses every long name.
func c17LongNames(r *vfRun, root string, kinds []string) bool {
	sim := r.sim
	srv := vfStartServer(sim, 0, r.sc.cfg("alloc", 0) != 0, nil, 0, root, false, "", 0)
	sim.mu.Lock() // (the server's reader, already running, looks at the name under this lock)
	srv.c2s.name, srv.s2c.name = fmt.Sprintf("c2s-%d", len(sim.pipes)), fmt.Sprintf("s2c-%d", len(sim.pipes))
	sim.mu.Unlock()
	ops := []vfOp{{K: "init", A: 3}, {K: "opendir", P: ".", H: 0}, {K: "readdir", H: 0}, {K: "readdir", H: 0}, {K: "close", H: 0}}
	wc := vfNewWireClient(sim, srv.c2s, srv.s2c, ops)
	wc.window = 1
	sim.run(func() bool { return wc.nReplies() >= len(ops) })
	if sim.failed() {
		return false
	}
	if wc.nReplies() < len(ops) {
		r.fail("C17/listing", "liveness", "raw listing did not finish")
		return false
	}
	now := time.Now()
	p := wc.replies[2]
	if p.Type != wtName {
		r.fail("C17/listing", "reply", "READDIR answered %v", p)
		return false
	}
	for _, e := range p.Names {
		cl, msg := c17CheckLong(sim, e, now, func(id string, group bool) string {
			if group {
				if g, err := user.LookupGroupId(id); err == nil {
					return g.Name
				}
				return id
			}
			if u, err := user.LookupId(id); err == nil {
				return u.Username
			}
			return id
		})
		if msg != "" {
			r.fail("C17/longname", cl, "%s", msg)
			return false
		}
	}
	// end this session cleanly
	srv.c2s.closeWriter()
	sim.run(func() bool { d, _ := srv.served(); return d })
	return true
}

// c17CheckLong compares the long name of one listing entry with the structured attributes of the same entry.
func c17CheckLong(sim *vfSim, e wName, now time.Time, lookup func(id string, group bool) string) (string, string) {
	a := e.Attrs
	f := strings.Fields(e.Long)
	if len(f) < 9 {
		return "format", fmt.Sprintf("long name %q of %s has %d fields, want at least 9", e.Long, e.Name, len(f))
	}
	wantPerm := c17PermString(a.Perm)
	mt := time.Unix(int64(a.Mtime), 0)
	wantDate := mt.Format("Jan 2")
	wantYT := mt.Format("15:04")
	if mt.Before(now.AddDate(0, -6, 0)) {
		wantYT = mt.Format("2006")
		sim.count("probe.longname_year_branch")
	} else {
		sim.count("probe.longname_time_branch")
	}
	owner, group := lookup(strconv.Itoa(int(a.UID)), false), lookup(strconv.Itoa(int(a.GID)), true)
	name := strings.Join(f[8:], " ")
	got := fmt.Sprintf("%s owner=%s group=%s size=%s date=%s %s when=%s name=%s", f[0], f[2], f[3], f[4], f[5], f[6], f[7], name)
	want := fmt.Sprintf("%s owner=%s group=%s size=%d date=%s when=%s name=%s", wantPerm, owner, group, a.Size, wantDate, wantYT, e.Name)
	if got != want {
		return "disagrees", fmt.Sprintf("long name %q disagrees with the structured attributes of the same entry (perm=%#o size=%d mtime=%d uid=%d gid=%d, clock %s): parsed %s, want %s", e.Long, a.Perm, a.Size, a.Mtime, a.UID, a.GID, now.Format("2006-01-02"), got, want)
	}
	return "", ""
}

// c17Setstat: a set-attributes request changes exactly the attributes whose flags it carries.
func c17Setstat(r *vfRun) {
	sc, sim := r.sc, r.sim
	v, err := vfStartFileSystem(r, nil)
	defer v.cleanup()
	if err != nil {
		r.fail("C17/handshake", "handshake", "handshake failed: %v", err)
		return
	}
	os.Remove(v.root + "/f")
	os.WriteFile(v.root+"/reg", vfFill(sc.Seed, 0, 60), 0o644)
	os.Mkdir(v.root+"/dir", 0o755)
	os.Symlink("reg", v.root+"/lnk")
	base := time.Unix(1500000000, 0)
	os.Chtimes(v.root+"/reg", base, base)
	os.Chtimes(v.root+"/dir", base, base)
	c := v.c
	type attrs struct {
		size         int64
		mode         os.FileMode
		uid, gid     uint32
		atime, mtime int64
	}
	get := func(p string) attrs {
		fi, _ := os.Stat(p)
		st := fi.Sys().(*syscall.Stat_t)
		return attrs{fi.Size(), fi.Mode(), st.Uid, st.Gid, st.Atim.Sec, st.Mtim.Sec}
	}
	var mismatch, msig string
	tk := vfSpawnTask(sim, 0, len(sc.Ops), func(i int) {
		if mismatch != "" {
			return
		}
		op := sc.Ops[i]
		target := v.root + "/" + op.P // (lnk follows to reg)
		before := get(target)
		fl := uint32(op.B) & 15
		isDir := before.mode.IsDir()
		if isDir && fl&waSize != 0 {
			return // truncating a directory fails before anything else is applied: not an attribute-selection question
		}
		timesByPath := false
		fs := &FileStat{Size: uint64(op.Off), Mode: uint32(op.N) & 0o7777, UID: uint32(op.A>>16) & 0xffff, GID: uint32(op.A) & 0xffff, Atime: uint32(1600000000 + op.N), Mtime: uint32(1700000000 + op.N)}
		if sc.cfg("late", 0) != 0 {
			fs.Atime, fs.Mtime = uint32(1<<31-2048+op.N), uint32(1<<31-100+op.N)
		}
		var err error
		if op.K == "setstat" {
			err = c.setstat(op.P, fl, fs)
		} else {
			var f *File
			if isDir {
				return // a directory handle comes from opendir; the public File API has none
			}
			f, err = c.OpenFile(op.P, os.O_RDWR)
			if err == nil {
				moved := op.S == "moved" && op.P == "reg"
				var decoy attrs
				if moved {
					os.Rename(target, target+".m")
					os.WriteFile(target, []byte("decoy"), 0o604)
					os.Chtimes(target, base, base)
					decoy = get(target)
					sim.count("fault.file_renamed_under_open_handle")
				}
				err = c.fsetstat(f.handle, fl, fs)
				f.Close()
				if moved {
					d2 := get(target)
					os.Remove(target)
					os.Rename(target+".m", target)
					if err == nil && fl&waTimes != 0 && d2.mtime != decoy.mtime {
						timesByPath = true // judged below, together with the times of the open file
					}
					d2.atime, d2.mtime = decoy.atime, decoy.mtime
					if d2 != decoy && err == nil {
						mismatch, msig = fmt.Sprintf("fsetstat on an open handle (flags %#x) changed another file that had taken the name of the open one: %+v -> %+v", fl, decoy, d2), "decoy:fsetstat"
						return
					}
				}
			}
		}
		if err != nil {
			mismatch, msig = fmt.Sprintf("%s(%s, flags %#x) failed: %v", op.K, op.P, fl, err), "failed:"+op.K
			return
		}
		after := get(target)
		want := before
		if fl&waSize != 0 {
			want.size = op.Off
			// truncation itself updates the modification time (kernel), unless times are set too
			want.mtime = -1
		}
		if fl&waPerm != 0 {
			m, _ := c17WireToMode(0o100000 | uint32(op.N)&0o7777)
			want.mode = before.mode&os.ModeType | m&(os.ModePerm|os.ModeSetuid|os.ModeSetgid|os.ModeSticky)
		}
		if fl&waUIDs != 0 {
			want.uid, want.gid = fs.UID, fs.GID
			if fl&waPerm == 0 {
				// chown clears setuid/setgid (kernel): not an attribute the request carried, not checked
				want.mode = after.mode
			}
		}
		if fl&waTimes != 0 {
			want.atime, want.mtime = int64(fs.Atime), int64(fs.Mtime)
		}
		if want.mtime == -1 {
			want.mtime = after.mtime
		}
		if fl&waTimes == 0 {
			want.atime = after.atime // atime moves on its own
		}
		if fl&waUIDs != 0 && fl&waPerm != 0 {
			// the request is applied in the order size, mode, owner, times (as OpenSSH does); the kernel clears
			// setuid/setgid when the owner changes afterwards - not an attribute-selection question
			after.mode &^= os.ModeSetuid | os.ModeSetgid
			want.mode &^= os.ModeSetuid | os.ModeSetgid
		}
		if op.S == "moved" && fl&waTimes != 0 && (timesByPath || after.atime != want.atime || after.mtime != want.mtime) {
			a2 := after
			a2.atime, a2.mtime = want.atime, want.mtime
			if a2 == want {
				mismatch, msig = fmt.Sprintf("fsetstat(times) on a handle whose file had been renamed: the times went to whatever now has the old name (decoy changed: %v), the open file has atime=%d mtime=%d, want %d %d", timesByPath, after.atime, after.mtime, want.atime, want.mtime), "moved:fsetstat-times"
				return
			}
		}
		if after != want {
			mismatch, msig = fmt.Sprintf("%s(%s) with flags %#x (size=%d perm=%#o uid=%d gid=%d atime=%d mtime=%d): attributes went from %+v to %+v, exactly the flagged ones should have changed: %+v", op.K, op.P, fl, fs.Size, fs.Mode, fs.UID, fs.GID, fs.Atime, fs.Mtime, before, after, want), fmt.Sprintf("flags%x:%s", fl, op.K)
		}
	})
	sim.run(tk.finished)
	if sim.failed() {
		return
	}
	if !tk.finished() {
		r.fail("C17/call-never-returned", "liveness", "set-attribute requests did not finish")
		return
	}
	if mismatch != "" {
		r.fail("C17/setstat-selection", msig, "%s", mismatch)
		return
	}
	r.res.NonTrivial = len(sc.Ops) > 0
}

// c17Chmod: Chmod over a slice of all 4096 permission + special bit values.
func c17Chmod(r *vfRun) {
	sc, sim := r.sc, r.sim
	v, err := vfStartFileSystem(r, nil)
	defer v.cleanup()
	if err != nil {
		r.fail("C17/handshake", "handshake", "handshake failed: %v", err)
		return
	}
	os.WriteFile(v.root+"/reg", nil, 0o644)
	os.Mkdir(v.root+"/dir", 0o755)
	part := int(sc.cfg("part", 0))
	var mismatch string
	tk := vfSpawnTask(sim, 0, 1, func(int) {
		for w := part * 512; w < (part+1)*512; w++ {
			m, _ := c17WireToMode(0o100000 | uint32(w))
			m &= os.ModePerm | os.ModeSetuid | os.ModeSetgid | os.ModeSticky
			for _, n := range []string{"reg", "dir"} {
				if err := v.c.Chmod(n, m); err != nil {
					mismatch = fmt.Sprintf("Chmod(%s, %v) failed: %v", n, m, err)
					return
				}
				fi, _ := os.Lstat(v.root + "/" + n)
				if got := fi.Mode() & (os.ModePerm | os.ModeSetuid | os.ModeSetgid | os.ModeSticky); got != m {
					mismatch = fmt.Sprintf("after Chmod(%s, %v) the file system has %v", n, m, got)
					return
				}
				gi, err := v.c.Lstat(n)
				if err != nil || gi.Mode() != fi.Mode() {
					mismatch = fmt.Sprintf("after Chmod(%s, %v) Lstat reports %v, the file system has %v", n, m, gi.Mode(), fi.Mode())
					return
				}
			}
		}
	})
	sim.run(tk.finished)
	if sim.failed() {
		return
	}
	if !tk.finished() || mismatch != "" {
		r.fail("C17/chmod", "chmod", "%s (finished=%v)", mismatch, tk.finished())
		return
	}
	sim.countN("probe.chmod_values", 512)
	r.res.NonTrivial = true
	_ = sort.Strings
}

// c17ClientAPI: Chtimes, Chown, Truncate and Chmod through the Client's and the File's own entry points (each builds its
// SETSTAT / FSETSTAT itself), over ladders of boundary values; after every call the file system must show exactly that
// value (and the other attributes unchanged), and Stat through the client must agree with the file system.
func c17ClientAPI(r *vfRun) {
	sim := r.sim
	v, err := vfStartFileSystem(r, nil)
	defer v.cleanup()
	if err != nil {
		r.fail("C17/handshake", "handshake", "handshake failed: %v", err)
		return
	}
	os.WriteFile(v.root+"/reg", []byte("0123456789"), 0o644)
	times := []int64{0, 1, 86400, 946684800, 1<<31 - 1, 1 << 31, 1<<31 + 12345, 2240000000, 4000000000, 1<<32 - 1}
	ids := []int{0, 1, 1234, 65534, 65535, 1<<31 - 1, 1 << 31, 1<<32 - 2}
	sizes := []int64{0, 1, 4095, 4096, 1<<31 - 1, 1 << 31, 1<<32 + 5, 1 << 40, 10}
	var mismatch string
	look := func() (os.FileInfo, *syscall.Stat_t) {
		fi, _ := os.Lstat(v.root + "/reg")
		st, _ := fi.Sys().(*syscall.Stat_t)
		return fi, st
	}
	agree := func(what string) bool {
		fi, st := look()
		gi, err := v.c.Stat("reg")
		if err != nil {
			mismatch = fmt.Sprintf("after %s: Stat failed: %v", what, err)
			return false
		}
		gs, _ := gi.Sys().(*FileStat)
		if gi.Size() != fi.Size() || gi.Mode() != fi.Mode() || gi.ModTime().Unix() != fi.ModTime().Unix() || gs == nil || gs.UID != st.Uid || gs.GID != st.Gid {
			mismatch = fmt.Sprintf("after %s: Stat reports size=%d mode=%v mtime=%d owner=%v, the file system has size=%d mode=%v mtime=%d owner=%d:%d", what, gi.Size(), gi.Mode(), gi.ModTime().Unix(), gs, fi.Size(), fi.Mode(), fi.ModTime().Unix(), st.Uid, st.Gid)
			return false
		}
		return true
	}
	tk := vfSpawnTask(sim, 0, 1, func(int) {
		f, err := v.c.OpenFile("reg", os.O_RDWR)
		if err != nil {
			mismatch = fmt.Sprintf("open: %v", err)
			return
		}
		defer f.Close()
		for i, at := range times {
			mt := times[(i+3)%len(times)]
			if err := v.c.Chtimes("reg", time.Unix(at, 0), time.Unix(mt, 0)); err != nil {
				mismatch = fmt.Sprintf("Chtimes(%d, %d): %v", at, mt, err)
				return
			}
			fi, st := look()
			if fi.ModTime().Unix() != mt || st.Atim.Sec != at || fi.Size() != 10 || fi.Mode().Perm() != 0o644 {
				mismatch = fmt.Sprintf("after Chtimes(atime=%d, mtime=%d) the file system has atime=%d mtime=%d size=%d mode=%v", at, mt, st.Atim.Sec, fi.ModTime().Unix(), fi.Size(), fi.Mode())
				return
			}
			if !agree(fmt.Sprintf("Chtimes(%d, %d)", at, mt)) {
				return
			}
		}
		for i, uid := range ids {
			gid := ids[(i+5)%len(ids)]
			var err error
			what := fmt.Sprintf("Chown(%d, %d)", uid, gid)
			if i%2 == 0 {
				err = v.c.Chown("reg", uid, gid)
			} else {
				what = "File." + what
				err = f.Chown(uid, gid)
			}
			if err != nil {
				mismatch = fmt.Sprintf("%s: %v", what, err)
				return
			}
			fi, st := look()
			if st.Uid != uint32(uid) || st.Gid != uint32(gid) || fi.Size() != 10 || fi.ModTime().Unix() != times[(len(times)-1+3)%len(times)] {
				mismatch = fmt.Sprintf("after %s the file system has owner %d:%d size=%d mtime=%d", what, st.Uid, st.Gid, fi.Size(), fi.ModTime().Unix())
				return
			}
			if !agree(what) {
				return
			}
		}
		for i, m := range []os.FileMode{0, 0o777, 0o640 | os.ModeSetuid, 0o751 | os.ModeSetgid | os.ModeSticky, 0o600} {
			var err error
			what := fmt.Sprintf("Chmod(%v)", m)
			if i%2 == 0 {
				what = "File." + what
				err = f.Chmod(m)
			} else {
				err = v.c.Chmod("reg", m)
			}
			if err != nil {
				mismatch = fmt.Sprintf("%s: %v", what, err)
				return
			}
			fi, st := look()
			mask := os.ModePerm | os.ModeSetuid | os.ModeSetgid | os.ModeSticky
			if fi.Mode()&mask != m || st.Uid != uint32(ids[len(ids)-1]) || fi.Size() != 10 {
				mismatch = fmt.Sprintf("after %s the file system has mode %v owner %d size=%d", what, fi.Mode()&mask, st.Uid, fi.Size())
				return
			}
			if !agree(what) {
				return
			}
		}
		for i, sz := range sizes {
			var err error
			what := fmt.Sprintf("Truncate(%d)", sz)
			if i%2 == 0 {
				err = v.c.Truncate("reg", sz)
			} else {
				what = "File." + what
				err = f.Truncate(sz)
			}
			if err != nil {
				mismatch = fmt.Sprintf("%s: %v", what, err)
				return
			}
			fi, st := look()
			if fi.Size() != sz || fi.Mode().Perm() != 0o600 || st.Uid != uint32(ids[len(ids)-1]) {
				mismatch = fmt.Sprintf("after %s the file system has size=%d mode=%v owner=%d", what, fi.Size(), fi.Mode(), st.Uid)
				return
			}
			if !agree(what) {
				return
			}
		}
	})
	sim.run(tk.finished)
	if sim.failed() {
		return
	}
	if !tk.finished() || mismatch != "" {
		r.fail("C17/client-setattr", "clientapi", "%s (finished=%v)", mismatch, tk.finished())
		return
	}
	sim.count("probe.client_setattr_ladders")
	r.res.NonTrivial = true
}
