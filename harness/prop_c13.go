//go:build verif

package sftp

// C13 — on partial failure the count names a prefix that really moved.

import (
	"bytes"
	"errors"
	"fmt"
	"io"
	"os"
	"sort"
	"strings"
)

func init() {
	vfRegister(&vfProp{
		id:        "C13",
		classes:   []string{"readat", "read", "writeto", "writeat", "write", "readfrom", "readfromc", "srcsink", "wrerr", "cut"},
		gen:       c13Gen,
		exec:      c13Exec,
		enumerate: c13Enumerate,
		maxSteps:  60000,
	})
}

var c13Codes = []int64{wsFailure, wsBadMessage, wsUnsupported, wsPermDenied, wsNoSuchFile, 23, 14}

func c13Gen(class string, seed uint64, tier string) *vfScenario {
	rng := vfRng(seed, 1)
	sc := &vfScenario{Cfg: map[string]int64{}}
	P := []int{1, 2, 3, 4, 5, 8, 16}[rng.IntN(7)]
	M := []int{1, 2, 3, 4, 8, 64}[rng.IntN(6)]
	sc.Cfg["P"], sc.Cfg["M"] = int64(P), int64(M)
	sc.Cfg["concr"] = int64(rng.IntN(2))
	sc.Cfg["concw"] = int64(rng.IntN(2))
	sc.Cfg["fstat"] = int64(rng.IntN(2))
	nch := 1 + rng.IntN(9)
	L := nch*P - rng.IntN(P)
	if rng.IntN(3) == 0 {
		L = nch * P
	}
	start := 0
	if rng.IntN(2) == 0 {
		start = rng.IntN(2*P + 1)
	}
	// file size: beyond the transfer, inside it, on a chunk boundary
	var size int
	switch rng.IntN(4) {
	case 0:
		size = start + L + rng.IntN(3*P)
	case 1:
		size = start + rng.IntN(L+1)
	case 2:
		size = start + rng.IntN(nch+1)*P
	default:
		size = start + L
	}
	sc.Cfg["size"] = int64(size)
	sc.Cfg["start"] = int64(start)
	kind := class
	if class == "cut" {
		kind = []string{"readat", "writeto", "writeat", "write", "readfrom", "readfromc"}[rng.IntN(6)]
	}
	if class == "wrerr" {
		kind = []string{"readat", "read", "writeto", "writeat", "write", "readfrom", "readfromc"}[rng.IntN(7)]
	}
	if class == "srcsink" {
		kind = []string{"readfrom", "writeto", "readfromc"}[rng.IntN(3)]
	}
	op := vfOp{K: kind, H: 0, N: L, B: int64(rng.IntN(1 << 20))}
	if kind == "writeto" {
		op.A = int64(rng.IntN(2)) // 1: a sink the scheduler paces
	}
	switch kind {
	case "readat", "writeat":
		op.Off = int64(start)
	case "readfrom":
		op.S = fmt.Sprintf("%d,%d,-1,%d,%d", rng.IntN(7), []int{0, 0, -1, 1, -L, P, 3 * P * M}[rng.IntN(7)], []int{0, 0, 1, P, P + 1}[rng.IntN(5)], []int{0, 0, 1}[rng.IntN(3)])
	case "readfromc":
		op.A = int64([]int{-1, 0, 1, 2, M, M + 1}[rng.IntN(6)])
		op.S = fmt.Sprintf("4,0,-1,%d,%d", []int{0, 1, P + 1}[rng.IntN(3)], []int{0, 0, 1}[rng.IntN(3)]) // last: a source that is slow (scheduler-paced)
	}
	if class == "srcsink" {
		switch kind {
		case "readfrom", "readfromc":
			k := rng.IntN(7)
			if kind == "readfromc" {
				k = 4
			}
			op.S = fmt.Sprintf("%d,0,%d,%d", k, rng.IntN(L+1), []int{0, 1, P + 1}[rng.IntN(3)])
		case "writeto":
			op.S = fmt.Sprintf("%d,%d", rng.IntN(size-start+1), rng.IntN(2))
		}
	}
	sc.Ops = []vfOp{op}
	// failing chunks: 0-3 of them, distinct codes
	nf := []int{0, 1, 1, 1, 2, 2, 3}[rng.IntN(7)]
	if class == "srcsink" && rng.IntN(2) == 0 {
		nf = 0
	}
	if (class == "wrerr" || class == "cut") && (size-start)%P != 0 && size < start+L {
		size = start + (size-start)/P*P // keep the end of the file on a chunk boundary (see c13Exec)
		sc.Cfg["size"] = int64(size)
	}
	if class == "wrerr" {
		// no failing replies; instead the client's own transport starts failing at some write of the transfer
		// (with one of the errors real transports return, io.EOF among them) while replies keep arriving
		nf = 0
		sc.Faults = append(sc.Faults, vfFault{K: "wrerr", At: int64(rng.IntN(2*nch + 3)), A: int64(rng.IntN(3)), B: int64(rng.IntN(3))})
	}
	if class == "cut" {
		// some chunk is refused by the peer AND the connection is lost after a number of chunk replies:
		// the lowest failing offset decides, whichever kind of failure sits there
		nf = rng.IntN(2) + rng.IntN(2)
		sc.Faults = append(sc.Faults, vfFault{K: "cut", At: int64(1 + rng.IntN(nch+1))})
	}
	perm := rng.Perm(nch + 1)
	codes := rng.Perm(len(c13Codes))
	for i := 0; i < nf && i < len(perm); i++ {
		sc.Faults = append(sc.Faults, vfFault{K: "chunk", At: int64(perm[i]), A: c13Codes[codes[i]]})
	}
	if strings.HasSuffix(op.S, ",1") && strings.Count(op.S, ",") == 4 && len(sc.Faults) > 0 {
		// A scheduler-paced source together with a refused chunk: when the slicer comes back from the source, "a worker
		// is free" and "cancelled" can both be true, and Go's select picks. Both continuations are legal and the oracle
		// accepts both, but the event log of such a run is not a function of the seed alone: it is marked, left out of
		// the determinism self-test's comparison, and a failure found in it may not replay every time (the check says so).
		sc.Cfg["coin"] = 1
	}
	sites := int64(1 | 2 | 4)
	if rng.IntN(4) == 0 {
		sites = int64(rng.IntN(4)) | 4
	}
	sc.Cfg["sites"] = sites
	return sc
}

// c13Enumerate: transfers of <= 6 chunks, every non-empty subset of <= 3 failing chunk indices,
// every API, a few tapes each.
func c13Enumerate(tier string, base uint64, emit func(*vfScenario)) {
	apis := []string{"readat", "read", "writeto", "writeat", "write", "readfrom", "readfromc"}
	maxch := 4
	tapes := 1
	if tier == "thorough" {
		maxch, tapes = 7, 4
	}
	n := 0
	for _, api := range apis {
		for nch := 1; nch <= maxch; nch++ {
			for mask := 1; mask < 1<<(nch+1); mask++ {
				if popcount(mask) > 3 {
					continue
				}
				for conc := 0; conc < 2; conc++ {
					for tp := 0; tp < tapes; tp++ {
						n++
						P := 3
						sc := &vfScenario{Prop: "C13", Class: "enum-" + api, Seed: vfMix(vfMix(base, 0xc13), uint64(n)), Cfg: map[string]int64{
							"P": int64(P), "M": 4, "concr": int64(conc), "concw": int64(conc), "fstat": 0, "size": int64(nch*P - 1 + (tp%2)*4), "start": int64(tp % 3), "sites": 7}}
						op := vfOp{K: api, N: nch*P - 1, B: 77}
						if api == "readat" || api == "writeat" {
							op.Off = int64(tp % 3)
						}
						if api == "readfrom" {
							op.S = fmt.Sprintf("%d,0,-1,0", tp%5)
						}
						if api == "readfromc" {
							op.A = int64(conc * 3)
							op.S = "4,0,-1,0"
						}
						sc.Ops = []vfOp{op}
						ci := 0
						for i := 0; i <= nch; i++ {
							if mask&(1<<i) != 0 {
								sc.Faults = append(sc.Faults, vfFault{K: "chunk", At: int64(i), A: c13Codes[ci]})
								ci++
							}
						}
						emit(sc)
					}
				}
			}
		}
	}
}

func popcount(x int) int {
	n := 0
	for ; x != 0; x &= x - 1 {
		n++
	}
	return n
}

type c13Fail struct {
	idx  int
	code uint32
	msg  string
}

const c13Transport = 0xffff // pseudo status code: the request of this chunk could not be sent

var c13WrErrs = []error{vfErrWriteFault, io.EOF, io.ErrClosedPipe}

func c13ErrMatches(err error, f c13Fail) bool {
	switch f.code {
	case c13Transport:
		// the transport's error, wrapped or not, but never a bare io.EOF (that means "end of file")
		return err != nil && err != io.EOF
	}
	switch f.code {
	case wsPermDenied:
		return err == os.ErrPermission
	case wsNoSuchFile:
		return err == os.ErrNotExist
	}
	var se *StatusError
	if errors.As(err, &se) {
		return se.Code == f.code && se.msg == f.msg
	}
	return false
}

func c13Exec(r *vfRun) {
	sc, sim := r.sc, r.sim
	srv := vfNewScriptServer(sim)
	tag := sc.Seed
	P, M := int(sc.cfg("P", 4)), int(sc.cfg("M", 2))
	size, start := int(sc.cfg("size", 10)), int64(sc.cfg("start", 0))
	if len(sc.Ops) == 0 {
		return
	}
	op := sc.Ops[0]
	if op.K == "readat" || op.K == "writeat" {
		op.Off = start // one source of truth for the transfer's start (keeps shrunk scenarios consistent)
	}
	isRead := op.K == "readat" || op.K == "read" || op.K == "writeto"
	for _, f := range sc.Faults {
		if (f.K == "wrerr" || f.K == "cut") && isRead && (int64(size)-start)%int64(P) != 0 && int64(size) < start+int64(op.N) {
			// A chunk that comes back short is completed by a second request for its rest: with a transport
			// fault in play the oracle's one-request-per-chunk bookkeeping would not be exact. The generator
			// keeps the end of the file on a chunk boundary for this class; shrunk scenarios may not.
			r.res.Skipped = "invalid-program"
			return
		}
	}
	content := vfFill(tag^1, 0, size)
	if isRead {
		srv.files["/f"] = append([]byte(nil), content...)
	} else {
		srv.files["/f"] = vfFill(tag^9, 0, int(start)) // writes start at `start`; what is before must stay
	}
	before := append([]byte(nil), srv.files["/f"]...)
	vfClientSites(sim, sc.cfg("sites", 7)|4)
	c, err := vfStartClient(sim, srv.c2s, srv.s2c, MaxPacketUnchecked(P), MaxConcurrentRequestsPerFile(M),
		UseConcurrentReads(sc.cfg("concr", 1) != 0), UseConcurrentWrites(sc.cfg("concw", 0) != 0), UseFstat(sc.cfg("fstat", 0) != 0))
	if err != nil {
		r.fail("C13/handshake", "handshake", "handshake failed: %v", err)
		return
	}
	env := &vfClientEnv{sim: sim, prop: "C13", c: c, files: map[int]*File{}, tag: tag}
	fails := map[int]c13Fail{}
	for _, f := range sc.Faults {
		if f.K == "chunk" {
			fails[int(f.At)] = c13Fail{idx: int(f.At), code: uint32(f.A), msg: fmt.Sprintf("chunk-%d-failed", f.At)}
		}
	}
	armed := false
	fired := map[int]bool{}
	arrived := map[int]bool{} // chunk indices whose request reached the peer after arming
	var wrFault *vfFault
	cutAfter := 0 // the link dies after this many chunk replies (0: never)
	for i := range sc.Faults {
		if sc.Faults[i].K == "wrerr" {
			wrFault = &sc.Faults[i]
		}
		if sc.Faults[i].K == "cut" {
			cutAfter = int(sc.Faults[i].At)
		}
	}
	answered := map[int]bool{} // chunk indices whose reply was written before the cut
	nAnswered, cutDone := 0, false
	srv.onAnswer = func(rq *ssReq, _ *wResp) {
		q := rq.q
		if !armed || cutDone || (q.Type != wtRead && q.Type != wtWrite) || int64(q.Offset) < start {
			return
		}
		answered[int((int64(q.Offset)-start)/int64(P))] = true
		nAnswered++
		if cutAfter > 0 && nAnswered == cutAfter {
			cutDone = true
			sim.mu.Lock()
			srv.s2c.cutAt, srv.s2c.cutErr = len(srv.s2c.buf), io.ErrUnexpectedEOF
			sim.mu.Unlock()
		}
	}
	srv.override = func(rq *ssReq) []byte {
		q := rq.q
		if !armed || (q.Type != wtRead && q.Type != wtWrite) {
			return nil
		}
		if int64(q.Offset) < start {
			return nil
		}
		idx := int((int64(q.Offset) - start) / int64(P))
		arrived[idx] = true
		if f, ok := fails[idx]; ok {
			fired[idx] = true
			sim.count("fault.peer.status")
			return ssStatus(q.ID, f.code, f.msg).encode()
		}
		return nil
	}
	prog := []vfOp{{K: "open", P: "/f", H: 0, A: int64(os.O_RDWR)}}
	if op.K != "readat" && op.K != "writeat" && start > 0 {
		prog = append(prog, vfOp{K: "seek", Off: start, A: int64(io.SeekStart)})
	}
	prog = append(prog, vfOp{K: "arm"}, op, vfOp{K: "seek", Off: 0, A: int64(io.SeekCurrent)})
	results := make([]*vfOpResult, len(prog))
	tk := vfSpawnTask(sim, 0, len(prog), func(i int) {
		if prog[i].K == "arm" {
			armed = true
			if wrFault != nil {
				srv.c2s.wrFaultAt = srv.c2s.writes + int(wrFault.At)
				srv.c2s.wrShort = int(wrFault.A) * 2
				srv.c2s.wrErr = c13WrErrs[int(wrFault.B)%len(c13WrErrs)]
				srv.c2s.wrPartial = true // otherwise "did the peer get that request?" has two right answers
			}
			return
		}
		results[i] = env.do(prog[i])
	})
	sim.run(tk.finished)
	if sim.failed() {
		return
	}
	if !tk.finished() {
		r.fail("C13/call-never-returned", op.K, "transfer %+v with failing chunks %v did not return (steps=%d stuck=%v) blocked: %v", op, sc.Faults, sim.steps, sim.stuck, vfBubbleGoroutines())
		return
	}
	res := results[len(prog)-2]
	posRes := results[len(prog)-1]
	for i, rr := range results {
		if rr != nil && i < len(prog)-2 && rr.Err != nil {
			r.fail("C13/setup", "setup", "setup op %+v failed: %v", prog[i], rr.Err)
			return
		}
	}
	wrFired := sim.stats["fault.c2s.wrerr"] > 0
	if wrFired {
		// the chunk at the lowest offset whose request never reached the peer plays the part of the failing chunk
		span := op.N
		if op.K == "writeto" && size > span {
			span = size // WriteTo goes to the end of the file, whatever N says
		}
		for i := 0; i <= (span+P-1)/P+1; i++ {
			if !arrived[i] {
				fails[i] = c13Fail{idx: i, code: c13Transport, msg: "request not sent"}
				break
			}
		}
		sim.count("probe.transfer_hit_by_write_fault")
	}
	if cutDone {
		// every chunk whose reply did not get through is a failing chunk (the call sees "connection lost" for it)
		span := op.N
		if op.K == "writeto" && size > span {
			span = size
		}
		for i := 0; i <= (span+P-1)/P+1; i++ {
			if !answered[i] {
				fails[i] = c13Fail{idx: i, code: c13Transport, msg: "reply lost with the connection"}
			}
		}
		sim.count("probe.transfer_hit_by_connection_loss")
	}
	// lowest failing chunk that the transfer can reach
	var idxs []int
	for i := range fails {
		idxs = append(idxs, i)
	}
	sort.Ints(idxs)
	L := op.N
	nch := (L + P - 1) / P
	avail := int64(size) - start // bytes of the file from the transfer's start
	if avail < 0 {
		avail = 0
	}
	fail := func(cl, format string, args ...any) {
		r.fail("C13/"+cl, op.K, "%s   [op=%+v P=%d M=%d size=%d start=%d failing=%v -> n=%d err=%v pos=%d]", fmt.Sprintf(format, args...), op, P, M, size, start, sc.Faults, res.N, res.Err, posRes.Pos)
	}
	var srcFailAt, sinkFailAt = -1, -1
	var srcKind int
	switch op.K {
	case "readfrom", "readfromc":
		var hd, ch int
		fmt.Sscanf(op.S, "%d,%d,%d,%d", &srcKind, &hd, &srcFailAt, &ch)
	case "writeto":
		if op.S != "" {
			var sh int
			fmt.Sscanf(op.S, "%d,%d", &sinkFailAt, &sh)
		}
	}
	switch op.K {
	case "readat", "read":
		// EOF point
		eofChunk := -1
		if avail < int64(L) {
			eofChunk = int(avail) / P
		}
		k := -1
		for _, i := range idxs {
			if i < nch && (eofChunk < 0 || i <= eofChunk) {
				k = i
				break
			}
		}
		var wantN int64
		switch {
		case k >= 0:
			wantN = int64(k * P)
			if !c13ErrMatches(res.Err, fails[k]) {
				fail("wrong-error", "the lowest failing chunk is %d (%s) but the call returned %v", k, fails[k].msg, res.Err)
				return
			}
		case eofChunk >= 0:
			wantN = avail
			if res.Err != io.EOF {
				fail("wrong-error", "the file ends after %d bytes of the request; want io.EOF, got %v", avail, res.Err)
				return
			}
		default:
			wantN = int64(L)
			if res.Err != nil {
				fail("wrong-error", "no failing chunk in reach and no EOF, but the call returned %v", res.Err)
				return
			}
		}
		if res.N != wantN {
			fail("wrong-count", "count %d, want %d (bytes of the chunks before the lowest failing one)", res.N, wantN)
			return
		}
		if !bytes.Equal(res.Data[:res.N], content[start:start+res.N]) {
			fail("prefix-not-intact", "the first %d bytes returned are not the file's bytes: got %x want %x", res.N, res.Data[:res.N], content[start:start+res.N])
			return
		}
	case "writeto":
		eofChunk := int(avail) / P // the chunk whose reply signals EOF (short data or EOF status)
		k := -1
		for _, i := range idxs {
			if i <= eofChunk {
				k = i
				break
			}
		}
		// A transfer that does not treat the short last DATA as the end asks for one more chunk
		// (entirely beyond the end) to see the EOF status; if exactly that chunk fails, both
		// "complete, nil" and "complete, that chunk's error" satisfy the property.
		if k < 0 && int(avail)%P != 0 {
			if f, ok := fails[eofChunk+1]; ok && c13ErrMatches(res.Err, f) && res.N == avail {
				sim.count("probe.writeto_failure_beyond_eof")
				k = -2
			}
		}
		want := content[min64(start, int64(size)):]
		var wantErr string
		if k >= 0 && int64(k*P) <= avail {
			want = want[:k*P]
			wantErr = "chunk"
		}
		if sinkFailAt >= 0 && sinkFailAt < len(want) {
			// the sink fails first (writes are sequential and in order)
			if res.Err != vfErrSink {
				fail("wrong-error", "the sink failed after %d bytes but WriteTo returned %v", sinkFailAt, res.Err)
				return
			}
			if res.N != int64(len(res.SinkGot)) || !bytes.HasPrefix(want, res.SinkGot) {
				fail("wrong-count", "count %d, sink received %d bytes %x; must be a prefix of %x", res.N, len(res.SinkGot), res.SinkGot, want)
				return
			}
			sim.count("fault.sink.err")
			break
		}
		if k == -2 {
			// checked above: all bytes delivered, error of the chunk beyond the end
		} else if wantErr != "" {
			if !c13ErrMatches(res.Err, fails[k]) {
				fail("wrong-error", "the lowest failing chunk is %d (%s) but WriteTo returned %v", k, fails[k].msg, res.Err)
				return
			}
		} else if res.Err != nil {
			fail("wrong-error", "no failing chunk before the end of the file, but WriteTo returned %v", res.Err)
			return
		}
		if res.N != int64(len(want)) || !bytes.Equal(res.SinkGot, want) {
			fail("prefix-not-intact", "WriteTo count %d, sink got %x; want the %d bytes %x", res.N, res.SinkGot, len(want), want)
			return
		}
	case "writeat", "write", "readfrom", "readfromc":
		data := res.Data
		total := L
		if srcFailAt >= 0 && srcFailAt <= L {
			total = srcFailAt // the source hands out this many bytes, then fails
		}
		tch := (total + P - 1) / P
		k := -1
		for _, i := range idxs {
			if i < tch {
				k = i
				break
			}
		}
		intact := int64(total)
		if k >= 0 {
			intact = int64(k * P)
		}
		got := srv.files["/f"]
		if int64(len(got)) < start+intact || !bytes.Equal(got[start:start+intact], data[:intact]) {
			fail("prefix-not-intact", "the served file does not hold the first %d bytes of the data at offset %d: %x", intact, start, got)
			return
		}
		if !bytes.Equal(got[:min64(start, int64(len(got)))], before[:min64(start, int64(len(got)))]) {
			fail("prefix-not-intact", "bytes before the write offset changed")
			return
		}
		isRF := op.K == "readfrom" || op.K == "readfromc"
		if k >= 0 {
			if !c13ErrMatches(res.Err, fails[k]) {
				fail("wrong-error", "the lowest failing chunk is %d (%s) but the call returned %v", k, fails[k].msg, res.Err)
				return
			}
		} else if srcFailAt >= 0 && srcFailAt <= L {
			if res.Err != vfErrSource {
				fail("wrong-error", "the source failed after %d bytes but the call returned %v", srcFailAt, res.Err)
				return
			}
			sim.count("fault.src.err")
		} else if res.Err != nil {
			fail("wrong-error", "nothing failed but the call returned %v", res.Err)
			return
		}
		if isRF {
			if res.N != res.SrcRead {
				fail("wrong-count", "ReadFrom count %d but the source handed out %d bytes", res.N, res.SrcRead)
				return
			}
			if posRes.Pos != start+intact {
				fail("wrong-offset", "after ReadFrom the offset is %d, the intact prefix ends at %d", posRes.Pos, start+intact)
				return
			}
		} else {
			if res.N != intact {
				fail("wrong-count", "count %d, want %d", res.N, intact)
				return
			}
		}
	}
	if res.Src != nil {
		// whatever is still running in the background: once the call has returned it must leave the source alone
		sim.run(nil)
		if sim.failed() {
			return
		}
		if got := res.Src.handedOut(); got != res.SrcRead {
			fail("source-read-after-return", "when the call returned it had consumed %d bytes of the source; afterwards the source was read again (%d bytes handed out in all)", res.SrcRead, got)
			return
		}
	}
	if int64(res.N) < int64(L) && res.Err == nil && op.K != "writeto" {
		fail("short-count-nil-error", "short count %d of %d with a nil error", res.N, L)
		return
	}
	nfired := len(fired)
	if nfired > 0 {
		sim.count("probe.chunk_failed")
	}
	if nfired > 1 {
		sim.count("probe.several_chunks_failed")
	}
	if sim.stats["probe.peer.reordered"] > 0 && nfired > 0 {
		sim.count("probe.failure_with_reordered_replies")
	}
	r.res.NonTrivial = nfired > 0 || srcFailAt >= 0 || sinkFailAt >= 0 || wrFired || cutDone
}

func min64(a, b int64) int64 {
	if a < b {
		return a
	}
	return b
}
