//go:build verif

package sftp

// C12 — a remote File keeps os.File's offset and closed-state semantics.

import (
	"bytes"
	"errors"
	"fmt"
	"io"
	"math/rand/v2"
	"os"
	"sort"
)

func init() {
	vfRegister(&vfProp{
		id:       "C12",
		classes:  []string{"hist-os", "hist-rs", "hist-peer", "race", "race", "afterclose", "hist-inmem", "race1"},
		gen:      c12Gen,
		exec:     c12Exec,
		maxSteps: 200000,
	})
}

func c12Gen(class string, seed uint64, tier string) *vfScenario {
	rng := vfRng(seed, 1)
	sc := &vfScenario{Cfg: map[string]int64{}}
	P := []int{1, 2, 3, 4, 5, 8, 16, 100}[rng.IntN(8)]
	M := []int{1, 2, 3, 4, 64}[rng.IntN(5)]
	sc.Cfg["P"], sc.Cfg["M"] = int64(P), int64(M)
	sc.Cfg["concr"] = int64(rng.IntN(2))
	sc.Cfg["concw"] = int64(rng.IntN(2))
	sc.Cfg["fstat"] = int64(rng.IntN(2))
	sc.Cfg["size0"] = int64(vfBoundary(rng, P, M))
	switch class {
	case "hist-os":
		sc.Cfg["kind"] = 0
		sc.Cfg["alloc"] = int64(rng.IntN(2))
	case "hist-rs":
		sc.Cfg["kind"], sc.Cfg["hopt"] = 1, 1
		sc.Cfg["alloc"] = int64(rng.IntN(2))
	case "hist-inmem":
		sc.Cfg["kind"] = 3 // the package's own in-memory backend (truncation that extends a file leaves a hole: zeros)
		sc.Cfg["alloc"] = int64(rng.IntN(2))
	default:
		sc.Cfg["kind"] = 2
	}
	sc.Cfg["ssites"] = int64(1 + rng.IntN(3))
	sc.Cfg["csites"] = 1 | 2 | 4
	switch class {
	case "race", "race1":
		sc.Cfg["csites"] = 1 | 2 | 4 | 32
		sc.Cfg["fsyncext"] = 1
		raceOp := c12RaceOp
		if class == "race1" {
			// single-request calls only, so that callers can also be held between registering a request and writing it
			// (site cc.send): the other place where a call that has let go of the File's lock too early is overtaken by Close
			sc.Cfg["csites"] = 1 | 2 | 8 | 32
			raceOp = func(rng *rand.Rand, t, P, size int) vfOp {
				for {
					op := c12RaceOp(rng, t, P, size)
					switch op.K {
					case "read", "writeto":
						continue
					case "readat", "writeat":
						if op.N > P {
							op.N = 1 + rng.IntN(P)
						}
						if op.K == "readat" && int(op.Off)+op.N > size {
							continue // (a read that runs into the end of the file needs a second request)
						}
					}
					return op
				}
			}
		}
		ntasks := 1 + rng.IntN(4)
		for t := 0; t < ntasks; t++ {
			n := 1 + rng.IntN(4)
			for i := 0; i < n; i++ {
				sc.Ops = append(sc.Ops, raceOp(rng, t, P, int(sc.Cfg["size0"])))
			}
		}
		// the closer is its own task; sometimes it closes twice, sometimes it does something first
		ct := ntasks
		if rng.IntN(3) == 0 {
			sc.Ops = append(sc.Ops, raceOp(rng, ct, P, int(sc.Cfg["size0"])))
		}
		sc.Ops = append(sc.Ops, vfOp{K: "close", T: ct})
		if rng.IntN(2) == 0 {
			sc.Ops = append(sc.Ops, vfOp{K: "close", T: ct})
		}
		if rng.IntN(2) == 0 {
			sc.Ops = append(sc.Ops, raceOp(rng, ct, P, int(sc.Cfg["size0"])))
		}
		if rng.IntN(3) == 0 {
			// somebody else closes too: exactly one of the Close calls wins, whichever way they interleave
			sc.Ops = append(sc.Ops, vfOp{K: "close", T: rng.IntN(ntasks)})
		}
	case "afterclose":
		// a few operations, Close, then every method once
		sc.Ops = c01GenOps(rng, P, M, rng.IntN(3), true)
		sc.Ops = append(sc.Ops, vfOp{K: "close"})
		// the CLOSE itself may fail: (1) the peer answers it with a failure, (2) the link dies instead of an answer
		if x := rng.IntN(6); x >= 2 {
			sc.Cfg["closefault"] = int64([]int{1, 2, 1, 3}[x-2])
			sc.Cfg["closecode"] = int64([]int{4, 1, 2, 3, 5, 6, 7, 8, 4, 9}[rng.IntN(10)])
		}
		for _, k := range []string{"read", "readat", "write", "writeat", "seek", "fstat", "truncate", "chmod", "fchown", "sync", "readfrom", "readfromc", "writeto", "close", "setext"} {
			n := 1 + rng.IntN(3*P)
			if rng.IntN(4) == 0 {
				n = 0 // zero-length buffers and empty sources: the closed state is reported all the same, as by an os.File
			}
			sc.Ops = append(sc.Ops, vfOp{K: k, N: n, Off: int64(rng.IntN(5)), A: int64(rng.IntN(3)), S: "4,0,-1,0"})
		}
	default:
		sc.Ops = c01GenOps(rng, P, M, 1+rng.IntN(20), true)
		if class == "hist-inmem" {
			c01NoEmptyWrites(sc.Ops)
		}
		// invalid whence values and failing ReadFrom sources now and then
		for i := range sc.Ops {
			if (sc.Ops[i].K == "readfrom" || sc.Ops[i].K == "readfromc") && rng.IntN(4) == 0 {
				var kind, hd, fa, ch int
				fmt.Sscanf(sc.Ops[i].S, "%d,%d,%d,%d", &kind, &hd, &fa, &ch)
				sc.Ops[i].S = fmt.Sprintf("%d,%d,%d,%d", kind, hd, rng.IntN(sc.Ops[i].N+1), ch)
			}
			if sc.Ops[i].K == "seek" && rng.IntN(8) == 0 {
				sc.Ops[i].A = int64([]int{3, -1, 7}[rng.IntN(3)])
			}
		}
		if class == "hist-os" && rng.IntN(3) == 0 && len(sc.Ops) > 0 {
			// somebody else renames the open file (and perhaps puts another one in its place): an open File, like an
			// open os.File, goes on referring to the file it opened
			at := rng.IntN(len(sc.Ops))
			ops := append([]vfOp{}, sc.Ops[:at]...)
			mv := vfOp{K: "oobmove", A: int64(rng.IntN(4))} // 0: the name is gone; 1: a larger file has taken it; 2: an empty one; 3: a shorter one (still longer than a packet if possible)
			ops = append(ops, mv)
			for _, op := range sc.Ops[at:] {
				if op.K == "writeto" && mv.A == 0 {
					// documented: without UseFstat, WriteTo sizes its transfer by a STAT of the path
					op = vfOp{K: "seek", Off: int64(rng.IntN(5)) - 2, A: 2}
				}
				ops = append(ops, op)
			}
			sc.Ops = ops
		}
	}
	return sc
}

func c12RaceOp(rng *rand.Rand, t, P, size int) vfOp {
	switch x := rng.IntN(100); {
	case x < 20:
		return vfOp{K: "readat", T: t, Off: int64(rng.IntN(size + 2)), N: 1 + rng.IntN(P)}
	case x < 34:
		return vfOp{K: "readat", T: t, Off: int64(rng.IntN(size + 2)), N: P + 1 + rng.IntN(3*P)}
	case x < 50:
		// WriteAt of the bytes the file already holds there (B=5 is the tag of the initial content), single- or
		// multi-chunk: the content never changes, so the other calls' results stay decidable
		if size == 0 {
			return vfOp{K: "sync", T: t}
		}
		off := rng.IntN(size)
		n := 1 + rng.IntN(size-off)
		if x < 42 && n > P {
			n = 1 + rng.IntN(P)
		}
		return vfOp{K: "writeat", T: t, Off: int64(off), N: n, B: 5}
	case x < 62:
		return vfOp{K: "fstat", T: t}
	case x < 72:
		return vfOp{K: "truncate", T: t, Off: int64(size)}
	case x < 77:
		return vfOp{K: "chmod", T: t, A: 0o644}
	case x < 80:
		if x == 79 {
			return vfOp{K: "fchown", T: t, A: 0, B: 0}
		}
		return vfOp{K: "sync", T: t}
	case x < 88:
		// all three origins: an end-relative Seek asks the server for the size
		switch rng.IntN(3) {
		case 0:
			return vfOp{K: "seek", T: t, Off: -int64(rng.IntN(size + 1)), A: 2}
		case 1:
			return vfOp{K: "seek", T: t, Off: int64(rng.IntN(3)), A: 1}
		}
		return vfOp{K: "seek", T: t, Off: int64(rng.IntN(size + 1)), A: 0}
	case x < 94:
		return vfOp{K: "read", T: t, N: 1 + rng.IntN(2*P)}
	default:
		return vfOp{K: "writeto", T: t}
	}
}

func c12Exec(r *vfRun) {
	switch r.sc.Class {
	case "race", "race1":
		c12Race(r)
	default:
		c12History(r)
	}
}

// c12History: one caller, the reference model tracks content and offset; after every call
// Seek(0, io.SeekCurrent) must agree with the model.
func c12History(r *vfRun) {
	sc, sim := r.sc, r.sim
	initial := vfFill(sc.Seed^5, 0, int(sc.cfg("size0", 0)))
	v, err := vfStartFileSystem(r, initial)
	defer v.cleanup()
	if err != nil {
		r.fail("C12/handshake", "handshake", "handshake failed: %v", err)
		return
	}
	env := &vfClientEnv{sim: sim, prop: "C12", c: v.c, files: map[int]*File{}, tag: sc.Seed}
	ref := &refFile{data: append([]byte(nil), initial...)}
	if v.kind == 3 && c01HasEmptyWrite(sc.Ops) {
		r.res.Skipped = "invalid-program"
		return
	}
	prog := append([]vfOp{{K: "open", P: v.name, H: 0, A: int64(os.O_RDWR)}}, sc.Ops...)
	closeFault := 0
	if v.peer != nil {
		closeFault = int(sc.cfg("closefault", 0))
	}
	if closeFault != 0 {
		peer := v.peer
		peer.override = func(rq *ssReq) []byte {
			if rq.q.Type != wtClose {
				return nil
			}
			if closeFault == 1 {
				// any failure status: the client maps EOF / NO_SUCH_FILE / PERMISSION_DENIED to io.EOF / os.ErrNotExist /
				// os.ErrPermission, the others stay *StatusError; the File is closed whichever it is
				sim.count("fault.close.status")
				return ssStatus(rq.q.ID, uint32(sc.cfg("closecode", 4)), "close failed").encode()
			}
			if closeFault == 3 {
				sim.count("fault.close.wrongtype")
				return (&wResp{Type: wtHandle, ID: rq.q.ID, Handle: "zz"}).encode()
			}
			sim.count("fault.close.linklost")
			peer.s2c.terminate(io.ErrUnexpectedEOF, "cut")
			return []byte{}
		}
	}
	var mismatch, msig string
	closed := false
	moved, invalid, nameGone := false, false, false
	closeSeq := -1
	var handle string
	tk := vfSpawnTask(sim, 0, len(prog), func(i int) {
		if mismatch != "" {
			return
		}
		op := prog[i]
		if op.K == "oobmove" {
			if v.kind == 0 && v.root != "" && !moved {
				moved = true
				os.Rename(v.root+"/f", v.root+"/f.moved")
				switch op.A {
				case 1:
					os.WriteFile(v.root+"/f", make([]byte, len(ref.data)+3), 0o644)
				case 2:
					os.WriteFile(v.root+"/f", nil, 0o644)
				case 3:
					n := len(ref.data) / 2
					if p := int(sc.cfg("P", 4)) + 1; n < p && p < len(ref.data) {
						n = p
					}
					os.WriteFile(v.root+"/f", make([]byte, n), 0o644)
				}
				nameGone = op.A == 0
				v.served = func() []byte { b, _ := os.ReadFile(v.root + "/f.moved"); return b }
				sim.count("fault.file_renamed_under_open_handle")
			}
			return
		}
		if moved && nameGone && op.K == "writeto" && sc.cfg("fstat", 0) == 0 {
			invalid = true // (a shrunk scenario) see the generator: this call is documented to go by the path
			return
		}
		if op.K == "setext" {
			f := env.file(0)
			err := f.SetExtendedData("x", []StatExtended{{ExtType: "a@b", ExtData: "c"}})
			if closed && err != os.ErrClosed {
				mismatch, msig = fmt.Sprintf("SetExtendedData after Close returned %v, want os.ErrClosed", err), "after-close:setext"
			}
			return
		}
		if i > 0 && !closed && c01HugeSeekLands(ref, op) {
			return
		}
		res := env.do(op)
		if i == 0 {
			if res.Err != nil {
				mismatch, msig = fmt.Sprintf("open failed: %v", res.Err), "open"
			} else {
				handle = env.file(0).handle
			}
			return
		}
		if closed {
			if res.Err != os.ErrClosed {
				mismatch, msig = fmt.Sprintf("op %d %s after Close returned err=%v (n=%d), want os.ErrClosed", i-1, op.K, res.Err, res.N), "after-close:"+op.K
			}
			return
		}
		if op.K == "close" {
			if res.Err != nil && closeFault == 0 {
				mismatch, msig = fmt.Sprintf("Close returned %v", res.Err), "close"
			}
			if res.Err == nil && closeFault != 0 {
				mismatch, msig = "Close returned nil although its CLOSE request failed", "close-fault"
			}
			closed = true
			closeSeq = sim.seq
			return
		}
		if m := c01Apply(ref, res, false); m != "" {
			mismatch, msig = fmt.Sprintf("op %d %+v: %s", i-1, op, m), "history:"+op.K
			return
		}
		// position check after every call
		pr := env.do(vfOp{K: "seek", Off: 0, A: 1})
		if pr.Err != nil || pr.Pos != ref.off {
			mismatch, msig = fmt.Sprintf("after op %d %+v the offset is %d (err %v), an os.File would be at %d", i-1, op, pr.Pos, pr.Err, ref.off), "offset-after:"+op.K
			return
		}
		if got := v.served(); !bytes.Equal(got, ref.data) {
			mismatch, msig = fmt.Sprintf("after op %d %+v the served file differs from the reference: served %x reference %x", i-1, op, vfHead(got), vfHead(ref.data)), "content-after:"+op.K
		}
	})
	sim.run(tk.finished)
	if sim.failed() {
		return
	}
	if !tk.finished() {
		r.fail("C12/call-never-returned", "liveness", "history did not finish (steps=%d stuck=%v): blocked %v", sim.steps, sim.stuck, vfBubbleGoroutines())
		return
	}
	if invalid {
		r.res.Skipped = "invalid-program"
		return
	}
	if mismatch != "" {
		r.fail("C12/mismatch", msig, "%s   [cfg=%v]", mismatch, sc.Cfg)
		return
	}
	if closed && v.peer != nil {
		if m := c12WireLog(v.peer, handle); m != "" {
			r.fail("C12/wire-after-close", "wire", "%s", m)
			return
		}
		sim.count("probe.closed_state_checked")
	}
	_ = closeSeq
	r.res.NonTrivial = len(sc.Ops) >= 3
}

// c12WireLog: exactly one CLOSE for the handle, nothing carrying it afterwards.
func c12WireLog(srv *vfScriptServer, handle string) string {
	srv.mu.Lock()
	defer srv.mu.Unlock()
	closes, closeIdx := 0, -1
	for i, rq := range srv.all {
		if rq.q == nil || rq.q.Handle != handle {
			continue
		}
		if rq.q.Type == wtClose {
			closes++
			if closeIdx < 0 {
				closeIdx = i
			}
			continue
		}
		if closeIdx >= 0 {
			return fmt.Sprintf("request %v carrying the closed handle was written to the wire after the CLOSE (request #%d, CLOSE was #%d)", rq.q, i, closeIdx)
		}
	}
	if closes != 1 {
		return fmt.Sprintf("%d CLOSE requests were sent for handle %q, want exactly 1", closes, handle)
	}
	return ""
}

// c12Race: several tasks share one File while one of them closes it.
func c12Race(r *vfRun) {
	sc, sim := r.sc, r.sim
	size := int(sc.cfg("size0", 0))
	initial := vfFill(sc.Seed^5, 0, size)
	v, err := vfStartFileSystem(r, initial)
	defer v.cleanup()
	if err != nil {
		r.fail("C12/handshake", "handshake", "handshake failed: %v", err)
		return
	}
	env := &vfClientEnv{sim: sim, prop: "C12", c: v.c, files: map[int]*File{}, tag: sc.Seed}
	st := vfSpawnTask(sim, 99, 1, func(i int) { env.do(vfOp{K: "open", P: v.name, H: 0, A: int64(os.O_RDWR)}) })
	sim.run(st.finished)
	f := env.file(0)
	if f == nil {
		if !sim.failed() {
			r.fail("C12/setup", "setup", "open failed")
		}
		return
	}
	handle := f.handle
	byTask := map[int][]vfOp{}
	var tids []int
	for _, op := range sc.Ops {
		if _, ok := byTask[op.T]; !ok {
			tids = append(tids, op.T)
		}
		byTask[op.T] = append(byTask[op.T], op)
	}
	sort.Ints(tids)
	results := map[int][]*vfOpResult{}
	var tasks []*vfTask
	closeReturned := 0 // scheduler seq at which the first successful Close returned
	for _, t := range tids {
		t := t
		ops := byTask[t]
		results[t] = make([]*vfOpResult, len(ops))
		tasks = append(tasks, vfSpawnTask(sim, t, len(ops), func(i int) {
			res := env.do(ops[i])
			results[t][i] = res
			if ops[i].K == "close" && res.Err == nil {
				sim.mu.Lock()
				if closeReturned == 0 {
					closeReturned = sim.seq
				}
				sim.mu.Unlock()
			}
		}))
	}
	allDone := func() bool {
		for _, t := range tasks {
			if !t.finished() {
				return false
			}
		}
		return true
	}
	sim.run(allDone)
	if sim.failed() {
		return
	}
	if !allDone() {
		r.fail("C12/call-never-returned", "race-liveness", "calls racing with Close did not all return (steps=%d stuck=%v parked=%v): blocked %v", sim.steps, sim.stuck, sim.parkedKeys(), vfBubbleGoroutines())
		return
	}
	nClosedErr, nOK, okCloses := 0, 0, 0
	for _, t := range tids {
		for i, res := range results[t] {
			op := res.Op
			if op.K == "close" {
				if res.Err == nil {
					okCloses++
				} else if res.Err != os.ErrClosed {
					r.fail("C12/race-wrong-result", "close", "Close returned %v", res.Err)
					return
				}
				continue
			}
			if errors.Is(res.Err, os.ErrClosed) {
				nClosedErr++
				if res.N != 0 && op.K != "writeto" && op.K != "read" {
					r.fail("C12/race-wrong-result", op.K, "task %d op %d %+v returned os.ErrClosed together with n=%d", t, i, op, res.N)
					return
				}
				continue
			}
			if closeReturned > 0 && res.Invoke > closeReturned {
				r.fail("C12/use-after-close", op.K, "task %d op %d %+v was started after Close had returned (seq %d > %d) but returned n=%d err=%v instead of os.ErrClosed", t, i, op, res.Invoke, closeReturned, res.N, res.Err)
				return
			}
			nOK++
			// a call that went through must be correct
			switch op.K {
			case "readat":
				if m := vfCheckReadAt(res, initial); m != "" {
					r.fail("C12/race-wrong-result", op.K, "task %d op %d %+v: %s", t, i, op, m)
					return
				}
			case "fstat":
				if res.Err != nil || res.Size != int64(size) {
					r.fail("C12/race-wrong-result", op.K, "task %d op %d: Stat = size %d err %v, want %d", t, i, res.Size, res.Err, size)
					return
				}
			case "writeat":
				if res.Err != nil || res.N != int64(op.N) {
					r.fail("C12/race-wrong-result", op.K, "task %d op %d %+v: WriteAt = (%d, %v), want (%d, nil) or os.ErrClosed", t, i, op, res.N, res.Err, op.N)
					return
				}
			case "truncate", "chmod", "sync", "fchown":
				if op.K == "sync" && sc.cfg("fsyncext", 0) == 0 {
					break
				}
				if res.Err != nil {
					r.fail("C12/race-wrong-result", op.K, "task %d op %d %+v: %v", t, i, op, res.Err)
					return
				}
			case "read", "writeto":
				got := res.Data[:min64(res.N, int64(len(res.Data)))]
				if op.K == "writeto" {
					got = res.SinkGot
				}
				if !bytes.Contains(initial, got) && len(got) > 0 {
					r.fail("C12/race-wrong-result", op.K, "task %d op %d %+v returned bytes %x that are not in the file", t, i, op, got)
					return
				}
			}
		}
	}
	if got := v.served(); !bytes.Equal(got, initial) {
		r.fail("C12/race-wrong-result", "content", "the racing calls never change the content, but the served file is %x, want %x", vfHead(got), vfHead(initial))
		return
	}
	if okCloses != 1 {
		r.fail("C12/race-wrong-result", "close-count", "%d Close calls returned nil, want exactly one", okCloses)
		return
	}
	if v.peer != nil {
		if m := c12WireLog(v.peer, handle); m != "" {
			r.fail("C12/wire-after-close", "wire-race", "%s", m)
			return
		}
	}
	if nClosedErr > 0 && nOK > 0 {
		sim.count("probe.close_raced_with_calls")
	}
	if sim.stats["lockprobe.failed"] > 0 {
		sim.count("probe.close_barrier_waited")
	}
	r.res.NonTrivial = nClosedErr > 0 && nOK > 0
}
