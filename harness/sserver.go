//go:build verif

package sftp

// Scripted SFTP server: a state machine (no goroutine) that parses the client's requests
// from the client->server tap and answers the outstanding ones when the scheduler says so,
// in any order, correctly or with planned faults.

import (
	"fmt"
	"path"
	"sort"
	"strings"
	"sync"
)

type ssReq struct {
	q    *wReq
	idx  int // arrival index
	seq  int // scheduler seq at arrival
	raw  []byte
	done bool
}

type ssHandle struct {
	path   string
	dir    bool
	pflags uint32
	lspos  int
	closed bool
}

type ssLog struct {
	Seq   int
	Req   *wReq
	AnsAt int
}

type vfScriptServer struct {
	sim      *vfSim
	c2s, s2c *vfPipe
	mu       sync.Mutex
	framer   wFramer
	pending  []*ssReq
	all      []*ssReq
	files    map[string][]byte
	dirs     map[string][]string // dir -> entry names
	handles  map[string]*ssHandle
	hangupEarly bool // once the client has closed its side the peer may hang up at any moment, requests unanswered or not
	noSync     func(path string) bool // fsync requests naming a handle of such a file are answered "unsupported"
	nextH    int
	exts     [][2]string
	version  uint32
	batch    int // READDIR batch size
	inOrder  bool
	bad      error // client->server stream stopped being well-framed requests
	ids      map[uint32]int
	dupID    string
	answered int

	// hooks for fault injection; return nil to fall through to the model answer
	shortRead int // if > 0, READ replies carry at most this many bytes
	override func(r *ssReq) []byte
	// after a reply has been written
	onAnswer func(r *ssReq, p *wResp)
	// when the writer side of c2s is closed by the client, close s2c (server went away)
	closedByPeer bool
	hold         func(r *ssReq) bool // true: not yet eligible
	onArrive     func(r *ssReq)      // called synchronously (sender's goroutine) when a request has arrived
}

func vfNewScriptServer(sim *vfSim) *vfScriptServer {
	s := &vfScriptServer{sim: sim, files: map[string][]byte{}, dirs: map[string][]string{}, handles: map[string]*ssHandle{}, version: 3, batch: 3, ids: map[uint32]int{}}
	s.c2s = sim.newPipe("c2s")
	s.s2c = sim.newPipe("s2c")
	s.c2s.tap = s.onBytes
	sim.addSource(s.events)
	return s
}

func (s *vfScriptServer) onBytes(b []byte) {
	s.mu.Lock()
	defer s.mu.Unlock()
	for _, f := range s.framer.feed(b) {
		q, err := wParseReq(f)
		if err != nil && s.bad == nil {
			s.bad = fmt.Errorf("request %d does not parse: %v (% x)", len(s.all), err, f)
		}
		r := &ssReq{q: q, idx: len(s.all), seq: s.sim.seq, raw: f}
		s.all = append(s.all, r)
		if err == nil {
			if q.Type != wtInit {
				if n := s.ids[q.ID]; n > 0 {
					s.dupID = fmt.Sprintf("id %d is used by two requests in flight (%v)", q.ID, q)
				}
				s.ids[q.ID]++
			}
			s.pending = append(s.pending, r)
			if s.onArrive != nil {
				s.onArrive(r)
			}
		}
	}
	if s.framer.bad != nil && s.bad == nil {
		s.bad = s.framer.bad
	}
}

func (s *vfScriptServer) outstanding() int {
	s.mu.Lock()
	defer s.mu.Unlock()
	return len(s.pending)
}

func (s *vfScriptServer) events(add func(string, func())) {
	s.mu.Lock()
	defer s.mu.Unlock()
	if s.s2c.wclosed {
		return
	}
	for i, r := range s.pending {
		if s.inOrder && i > 0 {
			break
		}
		if s.hangupEarly && s.closedByPeer {
			break // the peer has hung up: what it had not answered stays unanswered
		}
		if s.hold != nil && s.hold(r) {
			continue
		}
		r := r
		add(fmt.Sprintf("p:answer:%010d", r.q.ID), func() { s.answer(r) })
	}
	if !s.closedByPeer && s.c2s.wclosed && (len(s.pending) == 0 || s.hangupEarly) {
		add("p:close", func() {
			s.mu.Lock()
			s.closedByPeer = true
			s.mu.Unlock()
			s.s2c.closeWriter()
		})
	}
}

func (s *vfScriptServer) answer(r *ssReq) {
	s.mu.Lock()
	for i, x := range s.pending {
		if x == r {
			if i > 0 {
				s.sim.stats["probe.peer.reordered"]++
			}
			s.pending = append(s.pending[:i:i], s.pending[i+1:]...)
			break
		}
	}
	if r.q.Type != wtInit {
		s.ids[r.q.ID]--
	}
	r.done = true
	s.answered++
	s.mu.Unlock()
	var raw []byte
	if s.override != nil {
		raw = s.override(r)
	}
	var p *wResp
	if raw == nil {
		p = s.model(r.q)
		raw = p.encode()
	}
	s.sim.tracef("peer answers %v -> %v (%d bytes)", r.q, p, len(raw))
	s.s2c.Write(raw)
	if s.onAnswer != nil {
		s.onAnswer(r, p)
	}
}

func ssStatus(id uint32, code uint32, msg string) *wResp {
	return &wResp{Type: wtStatus, ID: id, Code: code, Msg: msg, Lang: "en"}
}

// ssAttrs: deterministic function of the path (and size for files known to the server).
func (s *vfScriptServer) attrsFor(p string) (wAttrs, bool) {
	h := vfHashStr("attr:" + p)
	if d, ok := s.files[p]; ok {
		return wAttrs{Flags: waSize | waPerm | waTimes | waUIDs, Size: uint64(len(d)), Perm: 0o100000 | uint32(h&0o777), Atime: uint32(h>>8) % 1000000000, Mtime: uint32(h>>16) % 1000000000, UID: uint32(h>>24) & 0xfff, GID: uint32(h>>36) & 0xfff}, true
	}
	if _, ok := s.dirs[p]; ok {
		return wAttrs{Flags: waSize | waPerm | waTimes, Size: 4096, Perm: 0o40000 | 0o755, Atime: 1, Mtime: uint32(h>>16) % 1000000000}, true
	}
	if strings.Contains(p, "nx") {
		return wAttrs{}, false
	}
	// synthetic: any other path "exists" with attributes derived from its name
	return wAttrs{Flags: waSize | waPerm | waTimes, Size: h % 100000, Perm: 0o100000 | uint32(h>>20)&0o777, Atime: uint32(h>>8) % 1000000000, Mtime: uint32(h>>30) % 1000000000}, true
}

func ssClean(p string) string {
	if !strings.HasPrefix(p, "/") {
		p = "/" + p
	}
	return path.Clean(p)
}

// model computes the correct answer and applies the request's effect.
func (s *vfScriptServer) model(q *wReq) *wResp {
	s.mu.Lock()
	defer s.mu.Unlock()
	switch q.Type {
	case wtInit:
		return &wResp{Type: wtVersion, Version: s.version, Exts: s.exts}
	case wtOpen:
		p := ssClean(q.Path)
		_, exists := s.files[p]
		if _, isdir := s.dirs[p]; isdir {
			return ssStatus(q.ID, wsFailure, "is a directory")
		}
		if !exists {
			if q.Pflags&wfCreat == 0 {
				return ssStatus(q.ID, wsNoSuchFile, "no such file")
			}
			s.files[p] = nil
		} else if q.Pflags&wfCreat != 0 && q.Pflags&wfExcl != 0 {
			return ssStatus(q.ID, wsFailure, "file exists")
		}
		if q.Pflags&wfTrunc != 0 {
			s.files[p] = nil
		}
		s.nextH++
		h := fmt.Sprintf("H%d", s.nextH)
		s.handles[h] = &ssHandle{path: p, pflags: q.Pflags}
		return &wResp{Type: wtHandle, ID: q.ID, Handle: h}
	case wtOpendir:
		p := ssClean(q.Path)
		if _, ok := s.dirs[p]; !ok {
			return ssStatus(q.ID, wsNoSuchFile, "no such directory")
		}
		s.nextH++
		h := fmt.Sprintf("D%d", s.nextH)
		s.handles[h] = &ssHandle{path: p, dir: true}
		return &wResp{Type: wtHandle, ID: q.ID, Handle: h}
	case wtClose:
		h := s.handles[q.Handle]
		if h == nil || h.closed {
			return ssStatus(q.ID, wsFailure, "bad handle")
		}
		h.closed = true
		return ssStatus(q.ID, wsOK, "")
	case wtRead:
		h := s.handles[q.Handle]
		if h == nil || h.closed || h.dir {
			return ssStatus(q.ID, wsFailure, "bad handle")
		}
		d := s.files[h.path]
		if q.Offset >= uint64(len(d)) {
			return ssStatus(q.ID, wsEOF, "EOF")
		}
		end := q.Offset + uint64(q.Len)
		if end > uint64(len(d)) {
			end = uint64(len(d))
		}
		if s.shortRead > 0 && end-q.Offset > uint64(s.shortRead) {
			end = q.Offset + uint64(s.shortRead) // fewer bytes than asked for, though more are there: legal, the client asks again
		}
		return &wResp{Type: wtData, ID: q.ID, Data: append([]byte(nil), d[q.Offset:end]...)}
	case wtWrite:
		h := s.handles[q.Handle]
		if h == nil || h.closed || h.dir {
			return ssStatus(q.ID, wsFailure, "bad handle")
		}
		d := s.files[h.path]
		end := int(q.Offset) + len(q.Data)
		if len(q.Data) > 0 && end > len(d) {
			d = append(d, make([]byte, end-len(d))...)
		}
		if len(q.Data) > 0 {
			copy(d[q.Offset:], q.Data)
		}
		s.files[h.path] = d
		return ssStatus(q.ID, wsOK, "")
	case wtStat, wtLstat:
		a, ok := s.attrsFor(ssClean(q.Path))
		if !ok {
			return ssStatus(q.ID, wsNoSuchFile, "no such file")
		}
		if q.Type == wtLstat {
			a.Mtime ^= 1 // Stat and Lstat answers differ, so a mix-up is visible
		}
		return &wResp{Type: wtAttrs, ID: q.ID, Attrs: a}
	case wtFstat:
		h := s.handles[q.Handle]
		if h == nil || h.closed {
			return ssStatus(q.ID, wsFailure, "bad handle")
		}
		a, _ := s.attrsFor(h.path)
		return &wResp{Type: wtAttrs, ID: q.ID, Attrs: a}
	case wtSetstat, wtFsetstat:
		var p string
		if q.Type == wtFsetstat {
			h := s.handles[q.Handle]
			if h == nil || h.closed {
				return ssStatus(q.ID, wsFailure, "bad handle")
			}
			p = h.path
		} else {
			p = ssClean(q.Path)
		}
		if d, ok := s.files[p]; ok && q.Attrs.Flags&waSize != 0 {
			n := int(q.Attrs.Size)
			if n < len(d) {
				d = d[:n]
			} else if n < 1<<20 {
				d = append(d, make([]byte, n-len(d))...)
			}
			s.files[p] = d
		}
		return ssStatus(q.ID, wsOK, "")
	case wtReaddir:
		h := s.handles[q.Handle]
		if h == nil || h.closed || !h.dir {
			return ssStatus(q.ID, wsFailure, "bad handle")
		}
		ents := s.dirs[h.path]
		if h.lspos >= len(ents) {
			return ssStatus(q.ID, wsEOF, "EOF")
		}
		end := h.lspos + s.batch
		if end > len(ents) {
			end = len(ents)
		}
		p := &wResp{Type: wtName, ID: q.ID}
		for _, n := range ents[h.lspos:end] {
			a, _ := s.attrsFor(path.Join(h.path, n))
			p.Names = append(p.Names, wName{Name: n, Long: "-rw-r--r-- 1 u g 0 Jan 1 00:00 " + n, Attrs: a})
		}
		h.lspos = end
		return p
	case wtRealpath:
		return &wResp{Type: wtName, ID: q.ID, Names: []wName{{Name: "/r" + ssClean(q.Path), Long: "/r" + ssClean(q.Path)}}}
	case wtReadlink:
		if strings.Contains(q.Path, "nx") {
			return ssStatus(q.ID, wsNoSuchFile, "no such file")
		}
		return &wResp{Type: wtName, ID: q.ID, Names: []wName{{Name: "target-of-" + q.Path, Long: "x"}}}
	case wtRemove, wtRmdir:
		p := ssClean(q.Path)
		if strings.Contains(p, "nx") {
			return ssStatus(q.ID, wsNoSuchFile, "no such file")
		}
		if _, isDir := s.dirs[p]; isDir && q.Type == wtRemove {
			return ssStatus(q.ID, wsFailure, "is a directory") // (the client then tries RMDIR)
		}
		delete(s.files, p)
		return ssStatus(q.ID, wsOK, "")
	case wtMkdir:
		p := ssClean(q.Path)
		if _, ok := s.dirs[p]; ok {
			return ssStatus(q.ID, wsFailure, "exists")
		}
		s.dirs[p] = nil
		return ssStatus(q.ID, wsOK, "")
	case wtRename, wtSymlink:
		if strings.Contains(q.Path, "nx") {
			return ssStatus(q.ID, wsNoSuchFile, "no such file")
		}
		if strings.Contains(q.Path, "denied") {
			return ssStatus(q.ID, wsPermDenied, "denied")
		}
		return ssStatus(q.ID, wsOK, "")
	case wtExtended:
		switch q.ExtName {
		case "statvfs@openssh.com":
			h := vfHashStr("vfs:" + q.Path)
			w := &wbuf{}
			for i := uint64(0); i < 11; i++ {
				w.u64(vfMix(h, i) % 1000000)
			}
			return &wResp{Type: wtExtReply, ID: q.ID, Raw: w.b}
		case "posix-rename@openssh.com", "hardlink@openssh.com":
			if strings.Contains(q.Path, "nx") {
				return ssStatus(q.ID, wsNoSuchFile, "no such file")
			}
			return ssStatus(q.ID, wsOK, "")
		case "fsync@openssh.com":
			if h := s.handles[q.Handle]; h != nil && s.noSync != nil && s.noSync(h.path) {
				// advertised, but not for this file (the answer is a function of the request: which handle it names)
				return ssStatus(q.ID, wsUnsupported, "cannot sync this one")
			}
			return ssStatus(q.ID, wsOK, "")
		}
		return ssStatus(q.ID, wsUnsupported, "unsupported")
	}
	return ssStatus(q.ID, wsUnsupported, "unsupported")
}

func (s *vfScriptServer) addDir(p string, names ...string) {
	sort.Strings(names)
	s.dirs[p] = names
}

// ---------------------------------------------------------------- client construction + tasks

// vfClientLink creates the client end of the link to a scripted server or to a real server.
func vfNewSimClient(c2s, s2c *vfPipe, opts ...ClientOption) (*Client, error) {
	return NewClientPipe(s2c, vfWriteCloser{c2s}, opts...)
}

type vfTask struct {
	id   int
	sim  *vfSim
	done bool
	nops int
	cur  int // index of the op being executed, -1 idle
}

// vfSpawnTask starts a caller task: fn is called for i = 0..n-1, parking before each call.
func vfSpawnTask(sim *vfSim, id int, n int, fn func(i int)) *vfTask {
	t := &vfTask{id: id, sim: sim, nops: n, cur: -1}
	go func() {
		for i := 0; i < n; i++ {
			sim.park(fmt.Sprintf("t:%02d", id), nil)
			sim.mu.Lock()
			drained := sim.draining
			t.cur = i
			sim.mu.Unlock()
			if drained {
				break
			}
			fn(i)
			sim.mu.Lock()
			t.cur = -1
			sim.mu.Unlock()
		}
		sim.mu.Lock()
		t.done = true
		sim.mu.Unlock()
	}()
	return t
}

func (t *vfTask) finished() bool {
	t.sim.mu.Lock()
	defer t.sim.mu.Unlock()
	return t.done
}

// vfGuard runs f and converts a panic in the calling goroutine into a violation.
func vfGuard(sim *vfSim, prop string, what string, f func()) {
	defer func() {
		if e := recover(); e != nil {
			sim.fail(prop+"/panic", vfPanicSite(), "%s panicked: %v   at %s", what, e, vfShortStack())
		}
	}()
	f()
}
